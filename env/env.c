/* see env.h */
#include "env.h"

/* ------------------------------------------------------------------------- */
/* replayable nondeterminism                                                  */
/* ------------------------------------------------------------------------- */
uint32_t nd_log[ND_MAX];
uint32_t nd_n;

#ifdef VERIF_CBMC
uint32_t nondet_uint32(void);
static uint32_t nd_draw(void)
{
    uint32_t v = nondet_uint32();
    __CPROVER_assert(nd_n < ND_MAX, "H:nd_log capacity");
    nd_log[nd_n] = v;
    nd_n++;
    return v;
}
#else
#include <stdio.h>
#include <stdlib.h>
#include <string.h>
static uint32_t nd_in[ND_MAX];
static uint32_t nd_in_n;
static int      native_fail_n;
static uint32_t nd_draw(void)
{
    uint32_t v = 0;
    if (nd_n < nd_in_n) {
        v = nd_in[nd_n];
    }
    if (nd_n < ND_MAX) {
        nd_log[nd_n] = v;
    }
    nd_n++;
    return v;
}
void env_native_invalid(const char *what, int line)
{
    printf("REPLAY-INVALID assumption '%s' (line %d) does not hold for this input\n", what, line);
    fflush(stdout);
    exit(2);
}
void env_native_fail(const char *what, int line)
{
    printf("REPLAY-FAIL %s (line %d)\n", what, line);
    fflush(stdout);
    native_fail_n++;
}
void env_native_cover(const char *what)
{
    printf("REPLAY-COVER %s\n", what);
}
extern void harness(void);
int main(int argc, char **argv)
{
    FILE *f;
    unsigned long v;
    if (argc > 1) {
        f = fopen(argv[1], "r");
        if (f == NULL) {
            printf("REPLAY-ERROR cannot open %s\n", argv[1]);
            return 3;
        }
        while ((nd_in_n < ND_MAX) && (fscanf(f, "%lu", &v) == 1)) {
            nd_in[nd_in_n++] = (uint32_t)v;
        }
        fclose(f);
    }
    harness();
    if (native_fail_n > 0) {
        printf("REPLAY-RESULT fail checks=%d\n", native_fail_n);
        return 1;
    }
    printf("REPLAY-RESULT ok\n");
    return 0;
}
#endif

uint8_t  ND_U8(void)  { return (uint8_t)nd_draw(); }
uint16_t ND_U16(void) { return (uint16_t)nd_draw(); }
uint32_t ND_U32(void) { return nd_draw(); }
void ND_BUF(uint8_t *p, uint32_t n)
{
    uint32_t i;
    for (i = 0; i < n; i++) {
        p[i] = ND_U8();
    }
}
uint32_t ND_RANGE(uint32_t lo, uint32_t hi)
{
    uint32_t v = nd_draw();
    ASSUME((v >= lo) && (v <= hi));
    return v;
}

/* ------------------------------------------------------------------------- */
/* CAN driver                                                                 */
/* ------------------------------------------------------------------------- */
CO_IF_FRM env_rx;
uint8_t   env_rx_pending;
int16_t   env_rx_ret = 1;
CO_IF_FRM env_tx[ENV_TX_MAX];
uint32_t  env_tx_n;
int16_t   env_send_ret[ENV_TX_MAX];
uint32_t  env_can_enable_n, env_can_reset_n, env_can_close_n, env_can_init_n;
uint32_t  env_can_baud;

static void EnvCanInit(void)            { env_can_init_n++; }
static void EnvCanEnable(uint32_t baud) { env_can_enable_n++; env_can_baud = baud; }
static void EnvCanReset(void)           { env_can_reset_n++; }
static void EnvCanClose(void)           { env_can_close_n++; }
static int16_t EnvCanRead(CO_IF_FRM *frm)
{
    if (env_rx_pending == 0) {
        return 0;
    }
    env_rx_pending = 0;
    if (env_rx_ret > 0) {
        *frm = env_rx;
    }
    return env_rx_ret;
}
static int16_t EnvCanSend(CO_IF_FRM *frm)
{
    int16_t r = 0;
    if (env_tx_n < ENV_TX_MAX) {
        env_tx[env_tx_n] = *frm;
        r = env_send_ret[env_tx_n];
    }
    env_tx_n++;
    return r;
}
const CO_IF_CAN_DRV EnvCanDrv = { EnvCanInit, EnvCanEnable, EnvCanRead, EnvCanSend, EnvCanReset, EnvCanClose };

/* ------------------------------------------------------------------------- */
/* timer driver: one down-counter, exactly drv_timer_swcycle.c                */
/* ------------------------------------------------------------------------- */
uint32_t env_tmr_counter;
uint32_t env_tmr_reload_n, env_tmr_stop_n, env_tmr_start_n;

static void EnvTmrInit(uint32_t freq)   { (void)freq; env_tmr_counter = 0; }
static void EnvTmrReload(uint32_t r)    { env_tmr_counter = r; env_tmr_reload_n++; }
static uint32_t EnvTmrDelay(void)       { return env_tmr_counter; }
static void EnvTmrStop(void)            { env_tmr_counter = 0; env_tmr_stop_n++; }
static void EnvTmrStart(void)           { env_tmr_start_n++; }
static uint8_t EnvTmrUpdate(void)
{
    uint8_t result = 0;
    if (env_tmr_counter > 0) {
        env_tmr_counter--;
        if (env_tmr_counter == 0) {
            result = 1;
        }
    }
    return result;
}
const CO_IF_TIMER_DRV EnvTmrDrv = { EnvTmrInit, EnvTmrReload, EnvTmrDelay, EnvTmrStop, EnvTmrStart, EnvTmrUpdate };

/* ------------------------------------------------------------------------- */
/* NVM driver: byte array, k-th call may come back short                      */
/* ------------------------------------------------------------------------- */
uint8_t  env_nvm[ENV_NVM_SIZE];
uint32_t env_nvm_rd_n, env_nvm_wr_n, env_nvm_call_n;
uint32_t env_nvm_short[ENV_NVM_CALLS];
uint32_t env_nvm_oob;

static void EnvNvmInit(void) { }
static uint32_t env_nvm_len(uint32_t start, uint32_t size)
{
    uint32_t n = size;
    uint32_t s = 0;
    if ((start > ENV_NVM_SIZE) || (size > ENV_NVM_SIZE - start)) {
        env_nvm_oob++;
        n = 0;
    }
    if (env_nvm_call_n < ENV_NVM_CALLS) {
        s = env_nvm_short[env_nvm_call_n];
    }
    env_nvm_call_n++;
    if (s > n) {
        s = n;
    }
    return n - s;
}
static uint32_t EnvNvmRead(uint32_t start, uint8_t *buffer, uint32_t size)
{
    uint32_t n = env_nvm_len(start, size);
    uint32_t i;
    env_nvm_rd_n++;
    for (i = 0; i < n; i++) {
        buffer[i] = env_nvm[start + i];
    }
    return n;
}
static uint32_t EnvNvmWrite(uint32_t start, uint8_t *buffer, uint32_t size)
{
    uint32_t n = env_nvm_len(start, size);
    uint32_t i;
    env_nvm_wr_n++;
    for (i = 0; i < n; i++) {
        env_nvm[start + i] = buffer[i];
    }
    return n;
}
const CO_IF_NVM_DRV EnvNvmDrv = { EnvNvmInit, EnvNvmRead, EnvNvmWrite };

CO_IF_DRV EnvDrv = { &EnvCanDrv, &EnvTmrDrv, &EnvNvmDrv };

/* ------------------------------------------------------------------------- */
/* callbacks                                                                  */
/* ------------------------------------------------------------------------- */
uint32_t env_fatal;
uint32_t env_lock_depth, env_lock_n, env_unlock_n, env_lock_err;
uint32_t env_modechg_n;  CO_MODE env_modechg_last;
uint32_t env_resetreq_n; CO_NMT_RESET env_resetreq_last;
uint32_t env_hbevent_n;  uint8_t env_hbevent_node;
uint32_t env_hbchange_n; uint8_t env_hbchange_node; CO_MODE env_hbchange_mode;
uint32_t env_canrcv_n;   CO_IF_FRM env_canrcv_frm;
uint32_t env_pdotx_n, env_pdorx_n, env_pdosync_n;
int16_t  env_pdorx_ret;
uint32_t env_lssload_n, env_lssstore_n;
CO_ERR   env_lssload_ret, env_lssstore_ret;
uint32_t env_lss_baud;   uint8_t env_lss_node; uint8_t env_lss_have;
uint32_t env_lssstore_baud; uint8_t env_lssstore_node;
uint32_t env_paradef_n;  struct CO_PARA_T *env_paradef_pg[4];
int16_t  env_paradef_ret;
uint32_t env_rpdowr_n, env_tpdord_n;
uint8_t  env_preempt_on;

void CONodeFatalError(void) { env_fatal++; }

void COTmrLock(void)
{
#ifdef ENV_PREEMPT
    if (env_preempt_on != 0) { env_preempt_point(); }
#endif
    if (env_lock_depth != 0) { env_lock_err++; }
    env_lock_depth++;
    env_lock_n++;
}
void COTmrUnlock(void)
{
    if (env_lock_depth != 1) { env_lock_err++; }
    env_lock_depth = 0;
    env_unlock_n++;
#ifdef ENV_PREEMPT
    if (env_preempt_on != 0) { env_preempt_point(); }
#endif
}
void CONmtModeChange(CO_NMT *nmt, CO_MODE mode)
{ (void)nmt; env_modechg_n++; env_modechg_last = mode; }
void CONmtResetRequest(CO_NMT *nmt, CO_NMT_RESET reset)
{ (void)nmt; env_resetreq_n++; env_resetreq_last = reset; }
void CONmtHbConsEvent(CO_NMT *nmt, uint8_t nodeId)
{ (void)nmt; env_hbevent_n++; env_hbevent_node = nodeId; }
void CONmtHbConsChange(CO_NMT *nmt, uint8_t nodeId, CO_MODE mode)
{ (void)nmt; env_hbchange_n++; env_hbchange_node = nodeId; env_hbchange_mode = mode; }
CO_ERR COLssLoad(uint32_t *baudrate, uint8_t *nodeId)
{
    env_lssload_n++;
    if ((env_lssload_ret == CO_ERR_NONE) && (env_lss_have != 0)) {
        *baudrate = env_lss_baud;
        *nodeId   = env_lss_node;
    }
    return env_lssload_ret;
}
CO_ERR COLssStore(uint32_t baudrate, uint8_t nodeId)
{
    env_lssstore_n++;
    env_lssstore_baud = baudrate;
    env_lssstore_node = nodeId;
    if (env_lssstore_ret == CO_ERR_NONE) {
        env_lss_baud = baudrate;
        env_lss_node = nodeId;
        env_lss_have = 1;
    }
    return env_lssstore_ret;
}
void COIfCanReceive(CO_IF_FRM *frm) { env_canrcv_n++; env_canrcv_frm = *frm; }
void COPdoTransmit(CO_IF_FRM *frm)  { (void)frm; env_pdotx_n++; }
int16_t COPdoReceive(CO_IF_FRM *frm){ (void)frm; env_pdorx_n++; return env_pdorx_ret; }
void COPdoSyncUpdate(CO_RPDO *pdo)  { (void)pdo; env_pdosync_n++; }
int16_t COParaDefault(struct CO_PARA_T *pg)
{
    if (env_paradef_n < 4) { env_paradef_pg[env_paradef_n] = pg; }
    env_paradef_n++;
    return env_paradef_ret;
}
void CORpdoWriteData(CO_IF_FRM *frm, uint8_t pos, uint8_t size, CO_OBJ *obj)
{ (void)frm; (void)pos; (void)size; (void)obj; env_rpdowr_n++; }
void COTpdoReadData(CO_IF_FRM *frm, uint8_t pos, uint8_t size, CO_OBJ *obj)
{ (void)frm; (void)pos; (void)size; (void)obj; env_tpdord_n++; }

/* ------------------------------------------------------------------------- */
void env_reset(void)
{
    uint32_t i;
    env_rx_pending = 0; env_rx_ret = 1; env_tx_n = 0;
    for (i = 0; i < ENV_TX_MAX; i++) { env_send_ret[i] = 0; }
    env_can_enable_n = env_can_reset_n = env_can_close_n = env_can_init_n = 0;
    env_tmr_counter = 0; env_tmr_reload_n = env_tmr_stop_n = env_tmr_start_n = 0;
    env_nvm_rd_n = env_nvm_wr_n = env_nvm_call_n = env_nvm_oob = 0;
    for (i = 0; i < ENV_NVM_CALLS; i++) { env_nvm_short[i] = 0; }
    env_fatal = 0;
    env_lock_depth = env_lock_n = env_unlock_n = env_lock_err = 0;
    env_modechg_n = env_resetreq_n = env_hbevent_n = env_hbchange_n = 0;
    env_canrcv_n = env_pdotx_n = env_pdorx_n = env_pdosync_n = 0;
    env_pdorx_ret = 0;
    env_lssload_n = env_lssstore_n = 0;
    env_lssload_ret = CO_ERR_NONE; env_lssstore_ret = CO_ERR_NONE;
    env_lss_have = 0;
    env_paradef_n = 0; env_paradef_ret = 0;
    env_rpdowr_n = env_tpdord_n = 0;
    env_preempt_on = 0;
}

void env_deliver(CO_NODE *node, uint32_t id, uint8_t dlc, const uint8_t *data)
{
    uint8_t i;
    env_rx.Identifier = id;
    env_rx.DLC = dlc;
    for (i = 0; i < 8; i++) { env_rx.Data[i] = data[i]; }
    env_rx_pending = 1;
    env_rx_ret = 1;
    CONodeProcess(node);
}

void env_tick(CO_NODE *node)
{
    (void)COTmrService(&node->Tmr);
    COTmrProcess(&node->Tmr);
}

/* ------------------------------------------------------------------------- */
/* timer pool relink (hook CO_VERIF_TMR_POOL_HOOK, see DESIGN.md §4):         */
/* after COTmrReset built the free lists on the array handed to CONodeInit,   */
/* rebuild the very same lists (same ids, same order) on separately declared  */
/* blocks, so that cbmc sees one object per block instead of an array.        */
/* ------------------------------------------------------------------------- */
#ifdef CO_VERIF_TMR_POOL_HOOK
#define ENV_POOL_MAX 8
static CO_TMR_MEM env_pool_0, env_pool_1, env_pool_2, env_pool_3,
                  env_pool_4, env_pool_5, env_pool_6, env_pool_7;
CO_TMR_MEM *env_pool[ENV_POOL_MAX] = {
    &env_pool_0, &env_pool_1, &env_pool_2, &env_pool_3,
    &env_pool_4, &env_pool_5, &env_pool_6, &env_pool_7 };
void CoVerifTmrPool(CO_TMR *tmr)
{
    uint32_t i;
    uint32_t n = tmr->Max;
    if (n > ENV_POOL_MAX) {
        n = ENV_POOL_MAX;
    }
    for (i = 0; i < n; i++) {
        env_pool[i]->Act.Id         = (uint16_t)i;
        env_pool[i]->Act.Func       = (CO_TMR_FUNC)0;
        env_pool[i]->Act.Para       = 0;
        env_pool[i]->Act.CycleTicks = 0;
        env_pool[i]->Act.Next       = (i + 1 < n) ? &env_pool[i + 1]->Act : 0;
        env_pool[i]->Tmr.Delta      = 0;
        env_pool[i]->Tmr.Action     = 0;
        env_pool[i]->Tmr.ActionEnd  = 0;
        env_pool[i]->Tmr.Next       = (i + 1 < n) ? &env_pool[i + 1]->Tmr : 0;
    }
    if (n > 0) {
        tmr->Acts = &env_pool[0]->Act;
        tmr->Free = &env_pool[0]->Tmr;
    }
}
#endif
