/* Verification environment for canopen-stack: nondeterministic drivers,
 * callbacks, replayable nondeterminism.  Shared by every harness.
 * Built two ways: by goto-cc (cbmc decides) and by gcc+ASan/UBSan (native
 * replay of a counterexample; same harness source, real /repo sources). */
#ifndef VERIF_ENV_H
#define VERIF_ENV_H

#include "co_core.h"

/* ---- assertions / assumptions / reachability witnesses ------------------ */
#ifdef VERIF_CBMC
#define ASSUME(c)      __CPROVER_assume(c)
#ifdef WITNESS
#define CHECK(c,msg)   ((void)0)
#define COVER(c,msg)   __CPROVER_assert(!(c), "W:" msg)
#else
#define CHECK(c,msg)   __CPROVER_assert((c), "P:" msg)
#define COVER(c,msg)   ((void)0)
#endif
#else
void env_native_invalid(const char *what, int line);
void env_native_fail(const char *what, int line);
void env_native_cover(const char *what);
#define ASSUME(c)      do { if (!(c)) env_native_invalid(#c, __LINE__); } while (0)
#define CHECK(c,msg)   do { if (!(c)) env_native_fail(msg, __LINE__); } while (0)
#define COVER(c,msg)   do { if (c) env_native_cover(msg); } while (0)
#endif

#ifdef VERIF_CBMC
#define DBG(...)  ((void)0)
#else
#include <stdio.h>
#define DBG(...)  printf(__VA_ARGS__)
#endif

/* ---- replayable nondeterminism ------------------------------------------ */
#ifndef ND_MAX
#define ND_MAX 512
#endif
extern uint32_t nd_log[ND_MAX];
extern uint32_t nd_n;
uint8_t  ND_U8(void);
uint16_t ND_U16(void);
uint32_t ND_U32(void);
void     ND_BUF(uint8_t *p, uint32_t n);
/* value in [lo,hi] (assumed) */
uint32_t ND_RANGE(uint32_t lo, uint32_t hi);

/* ---- CAN driver ---------------------------------------------------------- */
#ifndef ENV_TX_MAX
#define ENV_TX_MAX 16
#endif
extern CO_IF_FRM env_rx;          /* frame delivered by the next Read        */
extern uint8_t   env_rx_pending;  /* 1: Read returns env_rx once             */
extern int16_t   env_rx_ret;      /* value Read returns when a frame pends   */
extern CO_IF_FRM env_tx[ENV_TX_MAX];
extern uint32_t  env_tx_n;        /* number of Send calls (may exceed MAX)   */
extern int16_t   env_send_ret[ENV_TX_MAX]; /* per-call return (fault inject) */
extern uint32_t  env_can_enable_n, env_can_reset_n, env_can_close_n, env_can_init_n;
extern uint32_t  env_can_baud;

/* ---- timer driver (sw-cycle semantics of tests/integration/driver) ------- */
extern uint32_t env_tmr_counter;
extern uint32_t env_tmr_reload_n, env_tmr_stop_n, env_tmr_start_n;

/* ---- NVM driver ---------------------------------------------------------- */
#ifndef ENV_NVM_SIZE
#define ENV_NVM_SIZE 64
#endif
#ifndef ENV_NVM_CALLS
#define ENV_NVM_CALLS 8
#endif
extern uint8_t  env_nvm[ENV_NVM_SIZE];
extern uint32_t env_nvm_rd_n, env_nvm_wr_n;
extern uint32_t env_nvm_call_n;               /* reads+writes in order       */
extern uint32_t env_nvm_short[ENV_NVM_CALLS]; /* bytes to withhold on call k */
extern uint32_t env_nvm_oob;                  /* accesses outside the array  */

/* ---- callbacks ----------------------------------------------------------- */
extern uint32_t env_fatal;
extern uint32_t env_lock_depth, env_lock_n, env_unlock_n, env_lock_err;
extern uint32_t env_modechg_n;  extern CO_MODE env_modechg_last;
extern uint32_t env_resetreq_n; extern CO_NMT_RESET env_resetreq_last;
extern uint32_t env_hbevent_n;  extern uint8_t env_hbevent_node;
extern uint32_t env_hbchange_n; extern uint8_t env_hbchange_node; extern CO_MODE env_hbchange_mode;
extern uint32_t env_canrcv_n;   extern CO_IF_FRM env_canrcv_frm;
extern uint32_t env_pdotx_n, env_pdorx_n, env_pdosync_n;
extern int16_t  env_pdorx_ret;
extern uint32_t env_lssload_n, env_lssstore_n;
extern CO_ERR   env_lssload_ret, env_lssstore_ret;
extern uint32_t env_lss_baud;   extern uint8_t env_lss_node;  /* "stored" cfg */
extern uint8_t  env_lss_have;                                 /* cfg valid    */
extern uint32_t env_lssstore_baud; extern uint8_t env_lssstore_node;
extern uint32_t env_paradef_n;  extern struct CO_PARA_T *env_paradef_pg[4];
extern int16_t  env_paradef_ret;
extern uint32_t env_rpdowr_n, env_tpdord_n;

extern const CO_IF_CAN_DRV   EnvCanDrv;
extern const CO_IF_TIMER_DRV EnvTmrDrv;
extern const CO_IF_NVM_DRV   EnvNvmDrv;
extern CO_IF_DRV             EnvDrv;

/* preemption hook: called from COTmrLock (before taking) and COTmrUnlock
 * (after releasing); harnesses of C08 set it, everybody else leaves it 0 */
extern void (*env_preempt)(void);
extern uint8_t env_preempt_on;
void env_preempt_point(void);      /* harness supplies when ENV_PREEMPT set */

/* reset all environment state (not nd_log) */
void env_reset(void);

/* deliver one frame through CONodeProcess */
void env_deliver(CO_NODE *node, uint32_t id, uint8_t dlc, const uint8_t *data);
/* one timer tick: service, then process */
void env_tick(CO_NODE *node);

#endif
