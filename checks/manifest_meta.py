HOOK_COMMITS = ['0557416']
NOTES = ('All checks are cbmc queries over goto-cc builds of /repo/src (current working tree) linked with /verif/env and one harness; '
         'see DESIGN.md. exit 3 = inconclusive (time-out / tool error), never reported as success.')
NA = {}
CHECKS = {
 'C06': {
  'text': 'Bounded symbolic model checking of CODictInit/CODictFind/CODictObjInit, the typed CODictRd/Wr API and CODictRd/WrBuffer on the real sources: '
          'dictionaries of every length 0..8 (thorough ..16) with all keys and flag bytes symbolic and a 32-bit symbolic search key; counting init type; '
          'all values/node ids/flag bytes for 8/16/32-bit direct and referenced entries; buffer access with a fully symbolic 32-bit length on objects up to 24 (64) bytes. '
          'Inside these bounds the verdict is for every input; it says nothing about longer dictionaries or larger objects.',
  'note': 'trusted: cbmc, harness oracles (linear-scan reference lookup, arithmetic reference for node-id offset, min(len,size) byte-move model); dictionary assumed sorted, end-marked, no entry with index 0/sub 0',
 },
 'C07': {
  'text': 'Bounded symbolic model checking of the real co_tmr.c in lock step with a reference timer model: every sequence of operation kinds over '
          '{create, delete, tick, process} of length 4 (thorough 5) is enumerated by the driver, all arguments (start/cycle 0..7 ticks, deleted id) are symbolic; '
          'pool sizes 1..3 (thorough ..4). Oracle after every step: callback counts, create/delete return values, id uniqueness, pool conservation. '
          'Tick conversion: all frequencies 0..10000 Hz and frequency = q*unit (q<=15, thorough 63), 16-bit symbolic times. Longer histories, larger pools and 32-bit frequencies are outside the bound.',
  'note': 'reference model re-arms a cyclic action when it is processed (as the code does); order of callbacks due on one tick unconstrained; timer driver = sw-cycle down-counter; pool blocks relinked onto separate objects by the CO_VERIF_TMR_POOL_HOOK hook; known finding F05 excluded by assumption and re-detected separately',
 },
 'C08': {
  'text': 'Same harness with interrupt preemption as solver-chosen flags: the tick service may run before every COTmrLock and after every COTmrUnlock of create/delete and between calls, '
          'processing deferred arbitrarily (exact lock-step model, pool 2, 4 operations, thorough 5 / pool 3); plus a variant where the service also preempts inside COTmrProcess '
          '(at most once per process call; oracle: memory safety, pool conservation, never after confirmed deletion, one-shot at most once, nothing lost after a final flush; pool 1, 3 operations).',
  'note': 'preemption only at lock/unlock boundaries (statement-level preemption outside critical sections reduces to these because that code touches task-private data apart from the loop-head read of Elapsed); RTOS-task concurrency outside the claim',
 },
 'C01': {
  'text': 'Inductive safety step of the SDO server on the real sources: server state, transfer buffer, object contents and one whole frame (command byte, dlc, payload) symbolic under a written-down representation invariant; '
          'all cbmc memory-safety / arithmetic / unwinding checks on, invariant re-established, bounded number of responses, no fatal error. One discharged step covers frame histories of any length. '
          'Block size scaled to N in {2,4} (thorough 2,3,4,6), one or two servers, 12 object kinds. The bounded-history harnesses of C02..C20 run with the same built-in checks.',
  'note': 'invariant sdo_inv.h (too weak => counterexample replayed natively; too strong => vacuity witnesses fail); block transfers at the production block size 127 outside the bound; dictionary structure = the template family; service steps other than SDO are covered by the per-property harnesses',
 },
 'C02': {
  'text': 'Reference SDO client in the harness drives the real server through CONodeProcess: expedited download + read back of 8/16/32-bit and node-id-relative objects, segmented download of every size 1..21 (thorough ..35) to a domain, '
          'block download at N in {2,3} (thorough ..4) with every position of one lost segment per block; payload, size indication, domain size and prior contents symbolic; every response byte and the final storage checked. Two-server non-interference as an inductive step.',
  'note': 'size per instance concrete (keeps every command byte concrete for cbmc), data symbolic; loss of the final segment of a block (recoverable only by client time-out) excluded; payload longer than an unannounced object excluded',
 },
 'C03': {
  'text': 'Reference client reassembles segmented and block uploads of domain and string objects of every size 1..21 (thorough ..35): block sizes 1, 2, 3, 127 (clamped), every partial-acknowledge pattern of up to two partial acks per transfer, block size change at complete acknowledges; contents symbolic; assembled bytes, announced size, sequence numbers, c-bit, n-field, unchanged object checked.',
  'note': 'acknowledge patterns and sizes enumerated concretely by the driver, data symbolic; new block size inside a PARTIAL acknowledge not exercised (server keeps the old size, stated in DESIGN.md appendix B)',
 },
 'C04': {
  'text': 'sdo_lookup: COSdoCheck+COSdoGetObject with a fully symbolic 24-bit multiplexer and symbolic R/W flags on all application entries against a linear reference lookup (existence, access right, abort codes 0602 0000h / 0609 0011h / 0601 0001h / 0601 0002h). '
          'sdo_step phases idle / segmented-open: all 256 command bytes with symbolic payload from an arbitrary server state, verdict table (response count, multiplexer echo, 0607 0012h/0013h, 0503 0000h, 0504 0001h, refused => storage unchanged).',
  'note': 'type-specific abort codes (0609 0030h, 0604 004xh) are checked with the owning objects in C11/C14/C15/C16; dictionaries beyond the template family outside',
 },
 'C05': {
  'text': 'From an ARBITRARY server state of each phase under the invariant (established inductive by C01), a client abort (or NMT reset communication) followed by a fresh conforming transfer of each mode (expedited, segmented and block, both directions, incl. objects of at most 4 byte on domain/string) yields the reference outcome with exact data. AG EF idle by induction instead of exploration.',
  'note': 'same reference client as C02/C03; N=2, domain 14 byte',
 },
 'C09': {
  'text': 'One input of each class (NMT command with symbolic cs/target/dlc, SDO request, RPDO, SYNC, monitored heartbeat, LSS frame, 22 foreign identifiers next to every claimed one, API mode change, EMCY set, TPDO trigger, heartbeat producer due) in each NMT mode against the CiA 301 transition and gating table; the model state is the mode, so one step is an induction over command sequences.',
  'note': 'a fully symbolic identifier does not terminate in cbmc (every decoder becomes symbolic at once), identifiers are enumerated; NMT frames with dlc < 2 unconstrained',
 },
 'C15': {
  'text': 'One EMCY operation (set with/without manufacturer fields, clear, reset silent/loud, SDO write 1003:0, SDO read 1003:n, get/count) from an arbitrary consistent emergency state: table (class 0..7, code), active set, history ring contents/fill/position, 1014h incl. valid bit all symbolic; 4 errors (thorough 6), depth 1..3 (4), modes PRE-OP/OPERATIONAL/STOP. Register, counters, frames and newest-first history against a reference model.',
  'note': 'ring fill/position enumerated for the set operation; 29-bit identifiers in 1014h outside',
 },
 'C18': {
  'text': 'One frame on 7E5h from an arbitrary LSS state (step, pending configuration, flags), symbolic identity 1018h:1..4, node id, arguments, dlc; every known command specifier (thorough: all 256) in both LSS states and three NMT modes against the CiA 305 service table; plus the configure / store / reset-communication / boot-up scenario.',
  'note': 'interleaving of selective and identify sequences unconstrained; activate-bit-timing only gated; 67/75/76 decoded by calling COLssCheck directly (see DESIGN.md)',
 },
}
