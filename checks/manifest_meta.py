HOOK_COMMITS = ['0557416']
NOTES = ('All checks are cbmc queries over goto-cc builds of /repo/src (current working tree) linked with /verif/env and one harness; '
         'see DESIGN.md. exit 3 = inconclusive (time-out / tool error), never reported as success.')
NA = {}
CHECKS = {
 'C06': {
  'text': 'Bounded symbolic model checking of CODictInit/CODictFind/CODictObjInit, the typed CODictRd/Wr API and CODictRd/WrBuffer on the real sources: '
          'dictionaries of every length 0..8 (thorough ..16) with all keys and flag bytes symbolic and a 32-bit symbolic search key; counting init type; '
          'all values/node ids/flag bytes for 8/16/32-bit direct and referenced entries; buffer access with a fully symbolic 32-bit length on objects up to 24 (64) bytes. '
          'Inside these bounds the verdict is for every input; it says nothing about longer dictionaries or larger objects.',
  'note': 'trusted: cbmc, harness oracles (linear-scan reference lookup, arithmetic reference for node-id offset, min(len,size) byte-move model); dictionary assumed sorted, end-marked, no entry with index 0/sub 0',
 },
 'C07': {
  'text': 'Bounded symbolic model checking of the real co_tmr.c in lock step with a reference timer model: every sequence of operation kinds over '
          '{create, delete, tick, process} of length 4 (thorough 5) is enumerated by the driver (plus deferred processing of three events, length 7), all arguments (start/cycle 0..7 ticks, deleted id) are symbolic; '
          'pool sizes 1..3 (thorough ..4). Oracle after every step: callback counts, create/delete return values, id uniqueness, pool conservation, and the delta list + hardware counter encode exactly the model ticks-until-due of every live action. '
          'Tick conversion: all frequencies 0..10000 Hz and frequency = q*unit (q<=15, thorough 63), 16-bit symbolic times. Longer histories, larger pools and 32-bit frequencies are outside the bound.',
  'note': 'reference model re-arms a cyclic action when it is processed (as the code does); order of callbacks due on one tick unconstrained; timer driver = sw-cycle down-counter; pool blocks relinked onto separate objects by the CO_VERIF_TMR_POOL_HOOK hook; known finding F05 excluded by assumption and re-detected separately',
 },
 'C08': {
  'text': 'Same harness with interrupt preemption as solver-chosen flags: the tick service may run before every COTmrLock and after every COTmrUnlock of create/delete and between calls, '
          'processing deferred arbitrarily (exact lock-step model, pool 2, 4 operations, thorough 5 / pool 3); plus a variant where the service also preempts inside COTmrProcess '
          '(at most once per process call; oracle: memory safety, pool conservation, never after confirmed deletion, one-shot at most once, nothing lost after a final flush; pool 1, 3 operations; pool 2 with one-shot actions and preemption only inside process); pool 3 with preempting ticks for two / three unprocessed elapsed events.',
  'note': 'preemption only at lock/unlock boundaries (statement-level preemption outside critical sections reduces to these because that code touches task-private data apart from the loop-head read of Elapsed); RTOS-task concurrency outside the claim',
 },
 'C01': {
  'text': 'Inductive safety step of the SDO server on the real sources: server state, transfer buffer, object contents and one whole frame (command byte, dlc, payload) symbolic under a written-down representation invariant; '
          'all cbmc memory-safety / arithmetic / unwinding checks on, invariant re-established, bounded number of responses, no fatal error. One discharged step covers frame histories of any length. '
          'Block size scaled to N in {2,4} (thorough 2,3,4,6), one or two servers, 12 object kinds. Plus a safety sweep: the arbitrary-state step harnesses of LSS (every command specifier), NMT gating (every input class), RPDO/SYNC, PDO configuration, heartbeat consumer, EMCY, SDO client, SYNC configuration and the preemptive timer are re-run with only the built-in checks of cbmc, unwinding assertions and the fatal-error counter deciding; and a configuration sweep (cfg_sweep): 10 (thorough: all 256) subsets of the optional dictionary groups x build configurations (two SDO servers, LSS off, SDO client off, 100 Hz / 1 MHz timer) x four input sequences (LSS + configuration writes, received traffic in OPERATIONAL, triggers/EMCY/client, ticks + NMT stop/start + both resets) with symbolic data and symbolic CAN send / NVM faults.',
  'note': 'safety sweep instances ignore the functional oracles of their harness (those belong to C09..C19); invariant sdo_inv.h (too weak => counterexample replayed natively; too strong => vacuity witnesses fail); block transfers at the production block size 127 outside the bound; dictionary structure = the template family; service steps other than SDO are covered by the per-property harnesses',
 },
 'C02': {
  'text': 'Reference SDO client in the harness drives the real server through CONodeProcess: expedited download + read back of 8/16/32-bit and node-id-relative objects, segmented download of every size 1..21 (thorough ..35) to a domain, '
          'block download at N in {2,3} (thorough ..4) with every position of one lost segment per block; payload, size indication, domain size and prior contents symbolic; every response byte and the final storage checked. Two-server non-interference as an inductive step. sdo_seg_step: induction over the segments of a download on a 600 (thorough 4000) byte domain - from an arbitrary mid-transfer state one conforming segment lands exactly at the offset reached so far (storage checked at a symbolic byte position).',
  'note': 'size per instance concrete (keeps every command byte concrete for cbmc), data symbolic; loss of the final segment of a block (recoverable only by client time-out) excluded; payload longer than an unannounced object excluded',
 },
 'C03': {
  'text': 'Reference client reassembles segmented and block uploads of domain and string objects of every size 1..21 (thorough ..35), from a fresh node and from an arbitrary idle state; inductive upload-segment step on a 600 (4000) byte domain: block sizes 1, 2, 3, 127 (clamped), every partial-acknowledge pattern of up to two partial acks per transfer, block size change at complete acknowledges and inside partial acknowledges; contents symbolic; assembled bytes, announced size, sequence numbers, c-bit, n-field, unchanged object checked.',
  'note': 'acknowledge patterns and sizes enumerated concretely by the driver, data symbolic; whether a block size announced inside a PARTIAL acknowledge applies to the repeated block is unconstrained (the server keeps the old size), the data must be exact either way',
 },
 'C04': {
  'text': 'sdo_lookup: COSdoCheck+COSdoGetObject with a fully symbolic 24-bit multiplexer and symbolic R/W flags on all application entries against a linear reference lookup (existence, access right, abort codes 0602 0000h / 0609 0011h / 0601 0001h / 0601 0002h). '
          'sdo_step phases idle / segmented-open: all 256 command bytes with symbolic payload from an arbitrary server state, verdict table (response count, multiplexer echo, 0607 0012h/0013h, 0503 0000h, 0504 0001h, refused => storage unchanged, expedited transfers leave nothing open, a segmented transfer starts at toggle 0, a client abort ends any transfer - also inside block transfers, N=2). Dictionary of sdo_lookup includes objects at A100h and FFFFh.',
  'note': 'type-specific abort codes (0609 0030h, 0604 004xh) are checked with the owning objects in C11/C14/C15/C16; dictionaries beyond the template family outside',
 },
 'C05': {
  'text': 'From an ARBITRARY server state of each phase under the invariant (established inductive by C01), a client abort (or NMT reset communication; or, from any idle state with arbitrary left-overs, nothing) followed by a fresh conforming transfer of each mode (expedited, segmented and block, both directions, incl. objects of at most 4 byte on domain/string) yields the reference outcome with exact data. AG EF idle by induction instead of exploration.',
  'note': 'same reference client as C02/C03; N=2, domain 14 byte',
 },
 'C09': {
  'text': 'One input of each class, on the full dictionary and on one without the SYNC objects, (NMT command with symbolic cs/target/dlc, SDO request, RPDO, SYNC, monitored heartbeat, LSS frame, 22 foreign identifiers next to every claimed one, API mode change, EMCY set, TPDO trigger, heartbeat producer due) in each NMT mode against the CiA 301 transition and gating table; the model state is the mode, so one step is an induction over command sequences. Plus TPDO / RPDO sequences in which NMT commands that do not change the mode (repeated start) must not disturb PDO communication.',
  'note': 'a fully symbolic identifier does not terminate in cbmc (every decoder becomes symbolic at once), identifiers are enumerated; NMT frames with dlc < 2 unconstrained',
 },
 'C15': {
  'text': 'One EMCY operation (set with/without manufacturer fields, clear, reset silent/loud, SDO write 1003:0, SDO read 1003:n, get/count) from an arbitrary consistent emergency state: table (class 0..7, code), active set, history ring contents/fill/position, 1014h incl. valid bit all symbolic; 4 errors (thorough 6; and 12 (20) errors over several status bytes with a concrete table), depth 1..3 (4), modes PRE-OP/OPERATIONAL/STOP. Register, counters, frames and newest-first history against a reference model.',
  'note': 'ring fill/position enumerated for the set operation; 29-bit identifiers in 1014h outside',
 },
 'C18': {
  'text': 'One frame on 7E5h from an arbitrary LSS state (step, pending configuration, flags), symbolic identity 1018h:1..4, node id, arguments, dlc; every known command specifier (thorough: all 256) in both LSS states and three NMT modes against the CiA 305 service table; plus the configure / store / reset-communication / boot-up scenario.',
  'note': 'interleaving of selective and identify sequences unconstrained; activate-bit-timing only gated; 67/75/76 decoded by calling COLssCheck directly (see DESIGN.md)',
 },
 'C10': {
  'text': 'hbp_bmc: whole node (heartbeat producer, one event-driven TPDO with event/inhibit timers, SYNC producer, application timer) on the real timer (pool 4, 1 kHz); operation-kind sequences of length 5..7 over {tick, SDO/API write 1017h, NMT start/stop/pre-op/reset-communication, SDO write 1800h:5 / 1800h:3 / 1005h / 1006h, TPDO trigger, application timer create/delete} are enumerated by the driver (34 quick, +625 thorough), '
          'written times taken from 3 (thorough 6) value vectors over 0..3 ms, initial 1017h 2 ms or 0 (thorough 0/1/2); the period is also read in timer ticks from the timer lists after every write (heartbeat times up to 60 s at 10 kHz..1 MHz). After every step the frames on 700h+id are compared with a reference schedule that only knows 1017h: count per tick, dlc 1, state code 127/5/4, restart on write, stop on zero, boot-up + restart on reset communication.',
  'note': 'written times are concrete per instance (symbolic times make every timer-list shape symbolic; cbmc does not finish), operation kinds concrete; emission schedules only for periods <= 3 ticks at 1 kHz and sequences up to 8 operations',
 },
 'C11': {
  'text': 'hbc_step: ONE consumer operation from an ARBITRARY consumer table: 2 (thorough 3) entries, every active-chain shape and order, every mask of running monitors enumerated; node ids, times 1..5 ms, event counters, last states symbolic. Operations: SDO write of a symbolic (node, time) to each entry, heartbeat frame from a symbolic node with symbolic state byte, monitor time elapsing (1..6 ticks), CONmtGetHbEvents, CONmtLastHbState; entries monitoring node ids 11/12, 1/2 and 126/127. '
          'Oracle: reference monitor (refusal 0604 0043h exactly for a non-zero time on a node monitored by another active entry and nothing changed; time 0 deactivates exactly the written entry; other entries untouched; event exactly when the time elapses and again after each period; counter saturates at 255 and clears on read; change callback iff state differs) plus chain invariant (acyclic, each entry once, chain = active entries). One step from an arbitrary consistent table = induction over histories.',
  'note': 'consumer times 1..5 ticks at 1 kHz; 4 entries outside the bound; re-pointing an ACTIVE entry to another node with non-zero time is only required to keep the chain invariant (DESIGN appendix B)',
 },
 'C12': {
  'text': 'tpdo2: two TPDOs sharing a mapped object (every change triggers each of them exactly once). tpdo_bmc: one TPDO on a whole node with the real timer; 7 mappings (1..4 objects of 1/2/3/4 bytes incl. 3-byte fields and a full 8-byte frame) with symbolic object values; 42 operation sequences (thorough + all 1024 sequences over {trigger, tick, object write, event-time write} of length 5) over {trigger, changed / unchanged write of an asynchronous mapped object, tick, SYNC, NMT start/stop/pre-op, SDO write event time / inhibit time, COB-ID invalidate / validate, transmission type rewritten between synchronous and event-driven while invalid, remapping to another / an empty mapping while invalid, repeated NMT start}; '
          'inhibit 0..3 ms, event 0..3 ms, types 1,2,3,240,254,255. Every emission (tick, identifier, dlc, little-endian data) is compared with a reference model of the trigger / inhibit / event / n-th-SYNC rules (inhibit first on ties); nothing is sent outside OPERATIONAL or with an invalid COB-ID.',
  'note': 'times and operation kinds concrete per instance, data symbolic; first event-timer arming after entering OPERATIONAL follows the code (stagger by channel number, DESIGN appendix B); one TPDO channel; objects wider than 4 bytes outside',
 },
 'C13': {
  'text': 'rpdo_step (one or both channels receiving): 10 mappings (8/16/24/32-bit fields, dummies 0002h..0007h of each width, asynchronous-flagged objects) x channel tables (which of 2 channels are valid / synchronous, incl. a synchronous channel above an asynchronous or invalid one) x NMT mode; payload, dlc and all object contents symbolic. Sequences over {RPDO frame, SYNC, local write, neighbouring identifier, NMT pre-operational / stop / start} of length <= 5 (thorough: all 39 over R/S/L up to 3). '
          'Oracle: model of the mapped objects (little-endian consecutive fields, dummies skip) + frame rule over every application variable and its guard words; synchronous RPDO applied exactly once at the next SYNC, SYNC without reception changes nothing, no effect outside OPERATIONAL or for another identifier.',
  'note': 'a reception still waiting for its SYNC when OPERATIONAL is left is discarded (PDO communication starts afresh with each OPERATIONAL phase); frames shorter than the mapped length unconstrained (DESIGN appendix B); mappings enumerated, at most 4 mapping slots per channel in the template',
 },
 'C14': {
  'text': 'pdocfg_step: ONE expedited SDO write to RPDO 0 / TPDO 0 COB-ID, type, mapping count or mapping entry 1..4 from an ARBITRARY stored configuration (COB-ID incl. valid bit, type, count, four - and in a second family eight - mapping values all symbolic under the configuration invariant) with a fully symbolic 32-bit written value, in PRE-OP and OPERATIONAL. '
          'Oracle: CiA 301 rule table (changes only while invalid, entries only while count 0, entry must name an existing mappable object with the right access - reference scan of the dictionary -, count <= entries and <= 8 bytes, extended / RTR refused), abort codes, refused => stored value unchanged, invariant (<= 8 entries, <= 8 mapped bytes) preserved. Induction over write histories. That an accepted configuration takes effect exactly as stored is checked on activation for the enumerated mappings of C12 / C13.',
  'note': 'activation of a SYMBOLIC mapping is outside (makes every mapped object pointer symbolic); one channel per direction',
 },
 'C16': {
  'text': 'sync_step: (a) one SDO write to 1005h / 1006h with stored 1005h (11-bit id, bit 30), stored 1006h, written value and a stale node error all symbolic at 100 Hz / 1 kHz / 1 MHz: verdict (0609 0030h on id change while producing, refusal of an unresolvable period with the previous value kept), stored value, producer started / stopped / re-timed; (b) COSyncUpdate identifier match with symbolic cached 1005h and symbolic 32-bit frame identifier; '
          '(c) one SYNC through CONodeProcess in each mode with one / two synchronous TPDOs, types 1..240 and SYNC counters symbolic (inductive step: a type-n TPDO is sent on exactly every n-th SYNC, each counter advances once); (d) producer timing: 12 (thorough 17) operation sequences x 3 value vectors on the real timer comparing (tick, frame) SYNC emissions with the model, incl. NMT stop/start and reset communication.',
  'note': 'period <= 6553500 us (16-bit tick conversion, DESIGN §6 item 18b), producer periods 1..3 ms in the timing sequences',
 },
 'C17': {
  'text': 'para_bmc: 1..3 parameter groups with symbolic size 1..8, symbolic enable flags (on command / autonomous) and reset types from 4 layouts; RAM images, initial NVM image, signatures (so right and wrong ones) symbolic; sequences over {application change, store request, restore request} ending in restart (CONodeInit on a zeroed node, NVM kept), NMT reset communication or reset node; the position and size of one short NVM driver count symbolic. '
          'Oracle: NVM image = bytes of exactly the addressed enabled groups (all for sub-index 1), wrong signature touches neither RAM nor NVM, COParaDefault for exactly the addressed groups, after restart / reset RAM of the groups of that reset type = last successfully stored image, every short count surfaces as SDO abort or node error and does not keep the other groups of that reload from being read.',
  'note': 'group sizes <= 8, <= 3 groups, <= 3 requests per sequence; a restart inside one driver call (torn write) is outside: the driver interface is one call per group',
 },
 'C19': {
  'text': 'csdo_e2e: the real SDO client against a reference server in the harness: upload and download of 1,3,4,5,7,8,14,15 bytes (thorough up to 28) with symbolic payload; server conforming / aborting with a symbolic code at step j / silent from step j / unknown command / wrong toggle / oversized or foreign answer / final segment claiming more data than remains; each followed by a second transfer with a longer time-out after an idle gap; variants in which the completion callback itself starts a timer (must survive the end of the transfer) or requests the next transfer (refused as busy or fully served). '
          'Oracle: callback exactly once with the right code, user buffer with red zones exact, bus frames exact (announced size, toggles, last-segment flag, n field), abort frame 0504 0000h on time-out, busy client refuses, timer pool occupancy restored. csdo_step: arbitrary BUSY download context with 32-bit symbolic Size (5..600) and Buf_Idx: next segment width min(7, Size-Buf_Idx), c-bit iff last, bytes from the right offset.',
  'note': 'e2e sizes enumerated, <= 4 segments; sizes up to 600 through the inductive segment step; one client; block transfer is not implemented by the client',
 },
 'C20': {
  'text': 'reset_equiv: on one real node (heartbeat producer, two heartbeat consumers, SYNC consumer/producer, EMCY, one TPDO with event/inhibit timers, SDO server, SDO client, LSS, application timer; real timer, pool 6) run a history H, then NMT reset communication, then probes P; then zero the node, put the post-H dictionary values back, CONodeInit + CONodeStart, and run the same probes. '
          '36 histories (inhibit time running at the reset, stack timers in front of / behind an application timer with different times, LSS activate-bit-timing pending with a reset through the API, write 1017h, SYNC producer on, SYNC id change, TPDO event/inhibit timers armed, consumer configured/armed, open segmented download, open block upload, busy SDO client, LSS configuration state, EMCY set, application timer, NMT start/stop, a combined one) x 10 probe sequences (ticks, SDO uploads and stray segments, SYNC and old-id frames, NMT start + TPDO trigger, heartbeat + event count, LSS inquiry, client request + server answer, EMCY state) with symbolic heartbeat state, payloads and mapped value. '
          'Oracle: per probe step the multiset of frames (identifier, dlc, data), all callback counts, API results and NMT mode are equal in both runs; exactly one boot-up; RAM communication parameters unchanged by the reset; application timer keeps its schedule; timer pool occupancy = fresh + live application timers.',
  'note': 'only observable behaviour is compared, never internal state; frames of one step as a multiset (order of actions due on one tick is free); the error history 1003h is dictionary content and not compared; times concrete (2 ms), kinds concrete; reset node variant and API resets in the thorough tier',
 },
}
