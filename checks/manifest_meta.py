HOOK_COMMITS = ['0557416']
NOTES = ('All checks are cbmc queries over goto-cc builds of /repo/src (current working tree) linked with /verif/env and one harness; '
         'see DESIGN.md. exit 3 = inconclusive (time-out / tool error), never reported as success.')
NA = {}
CHECKS = {
 'C06': {
  'text': 'Bounded symbolic model checking of CODictInit/CODictFind/CODictObjInit, the typed CODictRd/Wr API and CODictRd/WrBuffer on the real sources: '
          'dictionaries of every length 0..8 (thorough ..16) with all keys and flag bytes symbolic and a 32-bit symbolic search key; counting init type; '
          'all values/node ids/flag bytes for 8/16/32-bit direct and referenced entries; buffer access with a fully symbolic 32-bit length on objects up to 24 (64) bytes. '
          'Inside these bounds the verdict is for every input; it says nothing about longer dictionaries or larger objects.',
  'note': 'trusted: cbmc, harness oracles (linear-scan reference lookup, arithmetic reference for node-id offset, min(len,size) byte-move model); dictionary assumed sorted, end-marked, no entry with index 0/sub 0',
 },
 'C07': {
  'text': 'Bounded symbolic model checking of the real co_tmr.c in lock step with a reference timer model: every sequence of operation kinds over '
          '{create, delete, tick, process} of length 4 (thorough 5) is enumerated by the driver, all arguments (start/cycle 0..7 ticks, deleted id) are symbolic; '
          'pool sizes 1..3 (thorough ..4). Oracle after every step: callback counts, create/delete return values, id uniqueness, pool conservation. '
          'Tick conversion: all frequencies 0..10000 Hz and frequency = q*unit (q<=15, thorough 63), 16-bit symbolic times. Longer histories, larger pools and 32-bit frequencies are outside the bound.',
  'note': 'reference model re-arms a cyclic action when it is processed (as the code does); order of callbacks due on one tick unconstrained; timer driver = sw-cycle down-counter; pool blocks relinked onto separate objects by the CO_VERIF_TMR_POOL_HOOK hook; known finding F05 excluded by assumption and re-detected separately',
 },
 'C08': {
  'text': 'Same harness with interrupt preemption as solver-chosen flags: the tick service may run before every COTmrLock and after every COTmrUnlock of create/delete and between calls, '
          'processing deferred arbitrarily (exact lock-step model, pool 2, 4 operations, thorough 5 / pool 3); plus a variant where the service also preempts inside COTmrProcess '
          '(at most once per process call; oracle: memory safety, pool conservation, never after confirmed deletion, one-shot at most once, nothing lost after a final flush; pool 1, 3 operations).',
  'note': 'preemption only at lock/unlock boundaries (statement-level preemption outside critical sections reduces to these because that code touches task-private data apart from the loop-head read of Elapsed); RTOS-task concurrency outside the claim',
 },
}
