HOOK_COMMITS = ['0557416']
NOTES = ('All checks are cbmc queries over goto-cc builds of /repo/src (current working tree) linked with /verif/env and one harness; '
         'see DESIGN.md. exit 3 = inconclusive (time-out / tool error), never reported as success.')
NA = {}
CHECKS = {
 'C06': {
  'text': 'Bounded symbolic model checking of CODictInit/CODictFind/CODictObjInit, the typed CODictRd/Wr API and CODictRd/WrBuffer on the real sources: '
          'dictionaries of every length 0..8 (thorough ..16) with all keys and flag bytes symbolic and a 32-bit symbolic search key; counting init type; '
          'all values/node ids/flag bytes for 8/16/32-bit direct and referenced entries; buffer access with a fully symbolic 32-bit length on objects up to 24 (64) bytes. '
          'Inside these bounds the verdict is for every input; it says nothing about longer dictionaries or larger objects.',
  'note': 'trusted: cbmc, harness oracles (linear-scan reference lookup, arithmetic reference for node-id offset, min(len,size) byte-move model); dictionary assumed sorted, end-marked, no entry with index 0/sub 0',
 },
}
