"""Instance registry: which cbmc queries decide which property, per tier.

An instance = one harness source + -D parameters + unwinding bounds.
"""

DEFAULT_STUBS = [
    'CAN driver: Read delivers the harness frame once; Send logs the frame and returns a per-call value chosen by the harness (symbolic where fault injection is in scope)',
    'timer driver: one down-counter with the semantics of tests/integration/driver/drv_timer_swcycle.c',
    'NVM driver: byte array; the k-th call may return a short count chosen by the harness',
    'application callbacks (CONodeFatalError, COTmrLock/Unlock, CONmtModeChange, CONmtResetRequest, CONmtHbConsEvent/Change, COLssLoad/Store, COIfCanReceive, COPdoTransmit/Receive/SyncUpdate, COParaDefault, CORpdoWriteData, COTpdoReadData): counters and argument recorders in /verif/env/env.c',
    'src/config/callbacks.c and src/driver/_template are not linked (the environment supplies every callback and driver)',
]
DEFAULT_ASSUMPTIONS = [
    'cbmc 6.11.0, goto-cc, goto-instrument and the SAT back end are trusted',
    'function-pointer targets restricted to generated lists; a call outside a list is an assertion failure (reported as harness error, never a pass)',
    'loops unwound to the stated bounds with --unwinding-assertions (a bound that is too small fails the query)',
    'build flags -std=c99 -DNDEBUG as in the cmake build, plus -DCO_VERIF and the per-instance parameters listed in evidence',
]

META = {}


class Inst:
    def __init__(self, name, harness, defs=None, unwind=2, unwindset=None, objbits=8, cap_quick=300, cap_thorough=1500,
                 types=None, extra_types=None, tmr_cbs=None, csdo_cbs=None, fp_override=None, family=None,
                 conversion_check=False, solver=None, weight=1, collect_functions=True, bounds=None, harness_only=None, safety_only=False):
        self.name = name
        self.harness = harness
        self.defs = dict(defs or {})
        self.unwind = unwind
        self.unwindset = unwindset or {}
        self.objbits = objbits
        self.cap_quick = cap_quick
        self.cap_thorough = cap_thorough
        self.types = types
        self.extra_types = extra_types
        self.tmr_cbs = tmr_cbs
        self.csdo_cbs = csdo_cbs
        self.fp_override = fp_override
        self.family = family or harness.replace('.c', '')
        self.conversion_check = conversion_check
        self.solver = solver if solver is not None else ['--sat-solver', 'cadical']
        self.weight = weight
        self.collect_functions = collect_functions
        self.bounds = bounds
        self.harness_only = set(harness_only or [])
        self.safety_only = safety_only
        self.borrowed = False

    def bounds_text(self):
        us = ', '.join('%s:%s' % (k if isinstance(k, str) else '%s#%d' % k, v) for k, v in sorted(self.unwindset.items(), key=str))
        return '%s; unwind=%d%s' % (self.bounds or ', '.join('%s=%s' % kv for kv in sorted(self.defs.items())),
                                    self.unwind, (' unwindset{' + us + '}') if us else '')


def ilog2(n):
    k = 0
    while (1 << k) < n:
        k += 1
    return k


# --------------------------------------------------------------------------- #
# C06                                                                           #
# --------------------------------------------------------------------------- #
def c06(tier):
    out = []
    ns = [0, 1, 2, 3, 4, 5, 6, 7, 8] if tier == 'quick' else [0, 1, 2, 3, 4, 5, 6, 7, 8, 10, 12, 16]
    for n in ns:
        # binary search over n+1 slots: at most floor(log2(n+1))+1 probes
        it = ilog2(n + 2) + 2
        out.append(Inst('dict_find_n%d' % n, 'dict_find.c', {'N': n}, unwind=n + 3,
                        unwindset={'CODictFind': it}, types=[], weight=n,
                        bounds='dictionary of exactly %d entries + end marker, every key/flag byte symbolic, search key 32-bit symbolic' % n))
    ns = [1, 2, 3, 4] if tier == 'quick' else [1, 2, 3, 4, 5, 6, 8]
    for n in ns:
        out.append(Inst('dict_objinit_n%d' % n, 'dict_objinit.c', {'N': n}, unwind=n + 3, types=[],
                        extra_types={'HType': [None, 'HInit', None, None, None]},
                        bounds='dictionary of exactly %d entries with a counting init type, keys and init results symbolic' % n))
    for ew in (1, 2, 4):
        for d in (0, 1):
            out.append(Inst('typed_access_w%d_%s' % (ew, 'direct' if d else 'ref'), 'typed_access.c', {'EW': ew, 'DIRECT': d},
                            unwind=9, unwindset={'COTPdoClear': 40, 'COTPdoMapClear': 40, 'COTPdoTrigObj': 40, 'CODictFind': 5},
                            types=['COTInt8', 'COTInt16', 'COTInt32'],
                            bounds='entry width %d, %s storage; flag byte, node id 1..127, stored and written value fully symbolic' % (ew * 8, 'direct' if d else 'referenced')))
    bq = 24 if tier == 'quick' else 64
    out.append(Inst('buf_access_dom_b%d' % bq, 'buf_access.c', {'B': bq, 'KIND': 0}, unwind=bq + 6,
                    unwindset={'CODictFind': 4}, types=['COTInt8', 'COTDomain'], weight=50,
                    bounds='domain size 1..%d, len any 32-bit value, stale offset symbolic; contents = position pattern salted with a symbolic byte; checked at one symbolic byte position' % bq))
    out.append(Inst('buf_access_str_b%d' % bq, 'buf_access.c', {'B': bq, 'KIND': 1}, unwind=bq + 6,
                    unwindset={'CODictFind': 4}, types=['COTInt8', 'COTString'], weight=40,
                    bounds='string length 0..%d, len any 32-bit value' % bq))
    return out


# --------------------------------------------------------------------------- #
# C07 / C08 timer                                                               #
# --------------------------------------------------------------------------- #
def tmr_inst(name, P, K, isr, ops=None, tmax=7, weight=1, cap_quick=300):
    # list lengths are bounded by the pool size and by the number of creations in the sequence
    nc = sum(1 for o in ops if o == 0) if ops is not None else P
    b = min(P, max(nc, 1)) + 1
    defs = {'P': P, 'K': K, 'ISR': isr, 'TMAX': tmax, 'CO_VERIF_TMR_POOL_HOOK': None}
    if isr:
        defs['ENV_PREEMPT'] = None
    if isr >= 2:
        defs['NPRE'] = 10
    if isr == 3:
        defs['ONESHOT'] = None
    if ops is not None:
        defs['OPSEQ'] = '{' + ','.join(str(o) for o in ops) + '}'
    return Inst(name, 'tmr_bmc.c', defs, unwind=max({0: 0, 1: 26, 2: 12, 3: 12}[isr], K + 2, tmax + 3, 10),
                unwindset=dict({'COTmrDelete': b, 'COTmrProcess': b if isr < 2 else b + 1, 'COTmrInsert': b, 'COTmrRemove': b + 1, 'COTmrReset': P + 1,
                                'check_pools': P + 2, 'check_events': P + 2, 'CoVerifTmrPool': P + 1}, **({'check_due': max(P + 2, K + 1)} if isr == 0 else {})),
                types=[], fp_override={'COTmrProcess.function_pointer_call.1': ['cb']}, weight=weight, objbits=9,
                cap_quick=cap_quick, solver=[],      # MiniSat (cbmc default) is 2-4x faster than CaDiCaL on this family, and decides instances CaDiCaL does not finish (measured)
                harness_only=['P', 'K', 'ISR', 'TMAX', 'OPSEQ', 'NPRE', 'ONESHOT'], family='tmr_bmc',
                bounds='timer pool %d (separate blocks), operation kinds %s, arguments symbolic, times 0..%d ticks%s' % (
                    P, ''.join('CDTP'[o] for o in ops) if ops else '%d symbolic' % K, tmax,
                    {0: '', 1: ', tick service may preempt before every lock / after every unlock of create/delete; process deferred arbitrarily',
                     2: ', tick service may preempt at every lock/unlock incl. inside process (weak oracle)',
                     3: ', one-shot actions, tick service preempts only inside process, at any of its lock/unlock points (weak oracle)'}[isr]))


def op_seqs(K, first=(0,)):
    import itertools
    out = []
    for rest in itertools.product(range(4), repeat=K - 1):
        for f in first:
            out.append((f,) + rest)
    return out


def c07(tier):
    out = []
    if tier == 'quick':
        cfg = [(1, 4), (2, 4), (3, 4)]
    else:
        cfg = [(1, 5), (2, 5), (3, 5), (4, 5)]
    for P, K in cfg:
        for ops in op_seqs(K):
            # a pool of P behaves like a smaller one until P creations happened: covered by the smaller pool
            if P > 2 and sum(1 for o in ops if o == 0) < P:
                continue
            out.append(tmr_inst('tmr_bmc_p%d_%s' % (P, ''.join('CDTP'[o] for o in ops)), P, K, 0, ops, weight=1))
    # a new action due on exactly the tick of an event that is not the head
    out.append(tmr_inst('tmr_bmc_p3_CCCTT_t2', 3, 5, 0, (0, 0, 0, 2, 2), tmax=2, weight=8, cap_quick=700))
    for ops in (((0, 0, 0, 0), (0, 0, 0, 2, 0)) if tier == 'quick' else ((0, 0, 0, 0), (0, 0, 0, 2, 0), (0, 0, 0, 0, 1))):
        out.append(tmr_inst('tmr_bmc_p4_%s' % ''.join('CDTP'[o] for o in ops), 4, len(ops), 0, ops, tmax=7, weight=8, cap_quick=700))
    # deferred processing: three events fall due one after the other before a single process call
    for ops in (((0, 0, 0, 2, 2, 2, 3),) if tier == 'quick' else ((0, 0, 0, 2, 2, 2, 3), (0, 0, 0, 2, 2, 2, 3, 3), (0, 0, 2, 0, 2, 2, 3), (0, 0, 0, 2, 2, 2, 1))):
        out.append(tmr_inst('tmr_bmc_p3_%s' % ''.join('CDTP'[o] for o in ops), 3, len(ops), 0, ops, tmax=3, weight=8, cap_quick=700))
    out.append(Inst('tmr_conv_low', 'tmr_conv.c', {'MODE': 0}, unwind=2, types=[], family='tmr_conv', weight=100,
                    bounds='timer frequency 0..10000 Hz symbolic (all of the freq <= unit branch), two 16-bit symbolic times, unit in {1000, 10000}'))
    for qm in ((15,) if tier == 'quick' else (15, 63)):
        for unit in (1000, 10000):
            out.append(Inst('tmr_conv_mult_u%d_q%d' % (unit, qm), 'tmr_conv.c', {'MODE': 1, 'QMAX': qm, 'UNIT': unit}, unwind=2, types=[], weight=100,
                            bounds='timer frequency = q * %d, q in 1..%d symbolic, two 16-bit symbolic times' % (unit, qm)))
    return out


def c08(tier):
    out = []
    if tier == 'quick':
        cfg = [(1, 2, 4, 7), (2, 1, 3, 2)]
    else:
        cfg = [(1, 2, 5, 7), (1, 3, 4, 7), (2, 1, 4, 2), (2, 2, 3, 2)]
    # preemption inside process with TWO events (one elapsed, one falling due inside the process call)
    for ops in (((0, 0, 2, 3), (0, 0, 2, 2, 3)) if tier == 'quick' else ((0, 0, 2, 3), (0, 0, 3), (0, 0, 2, 3, 3), (0, 0, 2, 3, 1), (0, 2, 0, 3), (0, 0, 2, 2, 3))):
        out.append(tmr_inst('tmr_isr3_p2_%s' % ''.join('CDTP'[o] for o in ops), 2, len(ops), 3, ops, tmax=2, weight=9, cap_quick=700))
    for ops in (((0, 0, 1), (0, 0, 1, 3), (0, 0, 0, 3)) if tier == 'quick' else ((0, 0, 1), (0, 0, 1, 3), (0, 0, 0, 3), (0, 0, 1, 1), (0, 0, 0, 1))):
        out.append(tmr_inst('tmr_isr1_p3_%s' % ''.join('CDTP'[o] for o in ops), 3, len(ops), 1, ops, tmax=3, weight=6))
    for isr, P, K, tmax in cfg:
        for ops in op_seqs(K):
            if isr == 2 and 3 not in ops:
                continue   # the weak-oracle family is about preemption inside process
            out.append(tmr_inst('tmr_isr%d_p%d_%s' % (isr, P, ''.join('CDTP'[o] for o in ops)), P, K, isr, ops, tmax=tmax, weight=1 + isr))
    return out


# --------------------------------------------------------------------------- #
# whole-node helpers                                                            #
# --------------------------------------------------------------------------- #
NODE_DEFS = {'CO_TPDO_N': 2, 'CO_RPDO_N': 2, 'CO_EMCY_N': 4, 'CO_VERIF_TMR_POOL_HOOK': None}


def node_unwind(N=None, extra=None, dom=16, strn=12):
    """loop bounds shared by whole-node harnesses (N = scaled SDO block size)"""
    u = {'CODictFind': 9, 'COTmrReset': 9, 'CoVerifTmrPool': 9, 'COTPdoMapClear': 17, 'COTPdoTrigObj': 17,
         'COTPdoMapAdd': 17, 'COSdoInit': 3, 'COSdoCheck': 3, 'COObjTypeUserSDOAbort': 3, 'od_find': 80,
         'CODictInit': 90, 'CODictObjInit': 90, 'COEmcyReset': 6, 'COEmcyInit': 9, 'COEmcyCnt': 9, 'COTPdoClear': 9, 'COTPdoInit': 9, 'CORPdoClear': 9, 'CORPdoInit': 9}
    if N is not None:
        bb = 7 * N
        u.update({'COSdoUploadSegmented': 9, 'COSdoDownloadSegmented': 9, 'COSdoDownloadBlock': 9, 'COSdoAckUploadBlock': 9,
                  ('COSdoUploadBlock', 0): bb + 1, ('COSdoUploadBlock', 1): N + 2, ('COSdoUploadBlock', 2): 9, ('COSdoUploadBlock', 3): 9,
                  'COTDomainRead': dom + 2, 'COTDomainWrite': dom + 2, 'COTStringSize': strn + 6, 'COTStringRead': strn + 6})
    if extra:
        u.update(extra)
    return u


SDO_TGT = ['u8', 'u16', 'u32', 'nodeid32', 'ro8', 'wo8', 'domain', 'string', 'hbprod', 'sdoid', 'noidx', 'nosub', 'const32']


def sdo_step_insts(tier):
    out = []
    Ns = [2, 4] if tier == 'quick' else [2, 3, 4, 6]
    tg_full = [0, 2, 3, 4, 5, 6, 7, 8, 9, 10, 11, 12]
    for N in Ns:
        bb = 7 * N
        for ph in range(5):
            tgs = tg_full if (N == 4 or tier == 'thorough') else [2, 6, 7]
            for t in tgs:
                if ph != 0 and t in (10, 11):
                    continue      # no transfer can be open on an object that does not exist
                if ph in (2, 3) and t in (4, 7, 12):
                    continue      # block download is only ever open on a writable object (invariant)
                if ph == 4 and t == 5:
                    continue      # block upload is only ever open on a readable object (invariant)
                for fm in ((0, 1) if ph == 1 and t != 2 else (0,)):
                    defs = dict(NODE_DEFS)
                    defs.update({'PH': ph, 'TGT': t, 'FM': fm, 'CO_VERIF_SDO_BUF_SEG': N, 'OD_DOM_SIZE': 16 if tier == 'quick' else 40})
                    out.append(Inst('sdo_step_n%d_ph%d_%s%s' % (N, ph, SDO_TGT[t], '_alt' if fm else ''), 'sdo_step.c', defs,
                                    unwind=max(bb + 2, 46 if tier != 'quick' else 22),
                                    unwindset=node_unwind(N, dom=16 if tier == 'quick' else 40), objbits=10, harness_only=['PH', 'TGT', 'FM'], family='sdo_step',
                                    bounds='block size N=%d (buffer %d bytes), phase %d, object %s%s; server state, buffer, object contents and the frame (cmd, dlc, payload) symbolic' % (
                                        N, bb, ph, SDO_TGT[t], ', frame names object 2102h' if fm else '')))
    return out


def sdo_xfer_inst(xf, tgt, N, pre=0, ptgt=6, dom=16, ubl=4, nseg=2, lose=0, bs=2, fill=0, ak=(), bs2=None, bsp=0):
    defs = dict(NODE_DEFS)
    defs.update({'XF': xf, 'TGT': tgt, 'PRE': pre, 'PTGT': ptgt, 'CO_VERIF_SDO_BUF_SEG': N, 'OD_DOM_SIZE': dom, 'UBL': ubl,
                 'NSEG': nseg, 'LOSE': lose, 'BS': bs, 'FILL': fill})
    if xf == 4:
        defs.update({'AK': '{' + ','.join(str(a) for a in (ak or (0,))) + '}', 'AKN': len(ak), 'BS2': bs2 if bs2 is not None else bs, 'BSP': bsp})
    xt_names = ['u8', 'u16', 'u32', 'nodeid32', 'dn16', '-', 'domain', 'string']      # targets of sdo_xfer.c (xt[])
    name = 'sdo_xfer_x%d_%s_n%d_s%d%s%s%s%s' % (xf, xt_names[tgt], N, nseg, ('f%d' % fill) if fill else '', ('_l%d' % lose) if xf == 3 else '', ('_b%d%s%s' % (bs, ('to%d' % bs2) if bs2 not in (None, bs) else '', (('_a' + ''.join(str(a) for a in ak)) if ak else '') + (('p%d' % bsp) if bsp else ''))) if xf == 4 else '',
                                             ('_pre%d' % pre + ('_%s' % SDO_TGT[ptgt] if ptgt != 6 else '')) if pre else '')
    kinds = ['expedited download + read back', 'segmented download', 'segmented upload', 'block download', 'block upload with partial acknowledges']
    size = '1..4' if nseg == 0 else ('5..7' if nseg == 1 else '%d..%d' % (7 * (nseg - 1) + 1, 7 * nseg))
    if fill:
        size = str(fill if nseg == 0 else 7 * (nseg - 1) + fill)
    return Inst(name, 'sdo_xfer.c', defs, unwind=max(dom + 10, 7 * N + 2, 22), unwindset=node_unwind(N, dom=dom), objbits=10,
                harness_only=['XF', 'TGT', 'PRE', 'PTGT', 'UBL', 'NSEG', 'LOSE', 'BS', 'FILL', 'AK', 'AKN', 'BS2', 'BSP'], family='sdo_xfer', weight=3 if xf >= 3 else 1,
                bounds='%s of %s, block size N=%d, size %s bytes symbolic (%d segments), payload/contents/size-indication symbolic%s%s%s' % (
                    kinds[xf], xt_names[tgt], N, size, nseg,
                    (', segment %d of every first try lost' % lose) if (xf == 3 and lose) else '',
                    (', requested block size %d (then %s), partial acknowledges %s then complete ones' % (bs, bs2 if bs2 is not None else bs, list(ak))) if xf == 4 else '',
                    (', block size %d announced inside the partial acknowledges' % bsp if bsp else '') + ('' if not pre else ('; preceded by an arbitrary server state of phase %d (open on %s) and %s' % ((pre - 1) % 5, SDO_TGT[ptgt], 'a client abort' if pre <= 5 else ('NMT reset communication' if pre <= 10 else 'nothing else'))))))


def seg_step_insts(tier, dirn):
    out = []
    for ds in ((600,) if tier == 'quick' else (600, 4000)):
        combos = [(t, 0, 0) for t in (0, 1)] + ([(t, nf, 1) for t in (0, 1) for nf in range(7)] if dirn else [])
        if tier == 'quick' and dirn:
            combos = [(0, 0, 0), (1, 0, 0), (0, 0, 1), (1, 3, 1), (0, 6, 1), (1, 5, 1)]
        for t, nf, c in combos:
            defs = dict(NODE_DEFS)
            defs.update({'DIRN': dirn, 'OD_DOM_SIZE': ds, 'CO_VERIF_SDO_BUF_SEG': 2, 'TB': t, 'NF': nf, 'CB': c})
            uw = node_unwind(2, dom=8)
            uw['harness'] = ds + 6
            out.append(Inst('sdo_seg_step_%s_d%d_t%d%s' % ('dn' if dirn else 'up', ds, t, ('_n%d_c%d' % (nf, c)) if dirn else ''), 'sdo_seg_step.c', defs, unwind=22, unwindset=uw, objbits=10,
                            harness_only=['DIRN', 'TB', 'NF', 'CB'], family='sdo_seg_step', weight=30,
                            bounds='one %s segment (toggle %d%s) from an arbitrary mid-transfer state on a domain of symbolic size 1..%d: bytes done, announced size, payload symbolic; storage checked at a symbolic byte position' % (
                                'download' if dirn else 'upload', t, (', %d unused bytes, last=%d' % (nf, c)) if dirn else '', ds)))
    return out


def c02(tier):
    out = []
    for t in (0, 1, 2, 3, 4):
        out.append(sdo_xfer_inst(0, t, 2))     # 4: 2112h, 16 bit direct storage, node-id relative
    maxseg = 3 if tier == 'quick' else 5
    dom = 7 * maxseg
    sizes = [(0, f) for f in (1, 2, 3, 4)] + [(1, 5), (1, 6), (1, 7)] + [(ns, f) for ns in range(2, maxseg + 1) for f in range(1, 8)]
    for ns, f in sizes:
        out.append(sdo_xfer_inst(1, 6, 2, dom=dom, nseg=ns, fill=f))
    for N in ((2, 3) if tier == 'quick' else (2, 3, 4)):
        for ns, f in sizes:
            if tier == 'quick' and N == 3 and f not in (1, 4, 7):
                continue
            for lose in range(0, N):
                if lose and ns < 2:
                    continue
                out.append(sdo_xfer_inst(3, 6, N, dom=dom, nseg=ns, lose=lose, fill=f))
    out += sdo_two_servers(tier)
    out += seg_step_insts(tier, 1)
    # a download that follows an aborted / reset block transfer on the same server
    for pre in (3, 4, 5, 8):
        out.append(sdo_xfer_inst(3, 6, 2, pre=pre, dom=14, nseg=2, fill=3))
        out.append(sdo_xfer_inst(1, 6, 2, pre=pre, dom=14, nseg=2, fill=3))
    return out


def c03(tier):
    out = seg_step_insts(tier, 0)
    maxseg = 4 if tier == 'quick' else 5
    dom = 7 * maxseg
    fills = (1, 4, 7) if tier == 'quick' else (1, 2, 3, 4, 5, 6, 7)
    sizes = [(0, f) for f in (1, 4)] + [(1, f) for f in (5, 7)] + [(ns, f) for ns in range(2, maxseg + 1) for f in fills]
    if tier != 'quick':
        sizes = [(0, f) for f in (1, 2, 3, 4)] + [(1, f) for f in (5, 6, 7)] + [(ns, f) for ns in range(2, maxseg + 1) for f in fills]
    for t in (6, 7):
        for ns, f in sizes:
            if t == 7 and 7 * ns > 14:
                continue
            out.append(sdo_xfer_inst(2, t, 2, dom=dom, nseg=ns, fill=f))
        # one instance per size class with the size symbolic inside the class
        for ns in range(0, 3):
            out.append(sdo_xfer_inst(2, t, 2, dom=14, nseg=ns))
        # upload as the first thing after ANY earlier traffic: arbitrary idle left-overs (toggle bit, offsets, counters)
        for ns, f in ((0, 3), (1, 6), (2, 3)):
            out.append(sdo_xfer_inst(2, t, 2, pre=11, ptgt=t, dom=14, nseg=ns, fill=f))
        out.append(sdo_xfer_inst(4, t, 2, pre=11, ptgt=t, dom=14, ubl=4, nseg=2, bs=2, ak=(1,), fill=3))
    for N in ((2,) if tier == 'quick' else (2, 3, 4)):
        for t in (6, 7):
            for ns, f in sizes:
                if t == 7 and 7 * ns > 14:
                    continue
                if tier != 'quick' and ((N == 4 or t == 7) and f not in (1, 4, 7) or (N == 3 and f not in (1, 3, 4, 7))):
                    continue
                segs = max(ns, 1)
                for bs, bs2 in ((1, 1), (2, 2), (127, 127), (1, 2), (2, 1), (3, 3), (3, 1)):
                    if bs in (2, 3) and bs > N:
                        continue
                    ebs = min(bs, N)
                    pats = [()] + [(a,) for a in range(ebs)] + ([(a, b) for a in range(ebs) for b in range(ebs)] if ((tier != 'quick' and N == 2) or (segs >= 2 and f == 7)) else [])
                    for ak in pats:
                        if bs != bs2 and ak:
                            continue
                        if tier == 'quick' and t == 7 and (bs != 2 or len(ak) > 1):
                            continue
                        ubl = len(ak) + segs + 1
                        out.append(sdo_xfer_inst(4, t, N, dom=dom, nseg=ns, bs=bs, bs2=bs2, ak=ak, ubl=ubl, fill=f))
                # (see below) a new block size announced inside a partial acknowledge
                if t == 6 and segs >= 2 and (tier != 'quick' or f in (1, 7)):
                    for bs, bsp in ((2, 1), (1, 2), (2, 127)) + (((3, 1), (3, 2), (1, 3)) if N >= 3 else ()):
                        ebs = min(bs, N)
                        for a in range(ebs):
                            for ak in (((a,),) if tier == 'quick' else ((a,), (a, a), (ebs, a))):
                                out.append(sdo_xfer_inst(4, t, N, dom=dom, nseg=ns, bs=bs, bs2=bs, ak=ak, ubl=len(ak) + 2 * segs + 1, fill=f, bsp=bsp))
    return out


def c05(tier):
    out = []
    # the lemma C05 rests on: the server invariant is inductive for the block phases (a server-side abort must not
    # leave block state behind), N=2
    out += [i for i in sdo_step_insts('quick') if '_n2_' in i.name and ('_ph2_' in i.name or '_ph3_' in i.name or '_ph4_' in i.name)]
    for pre in range(1, 12):
        for xf, t in ((0, 2), (1, 6), (2, 6), (2, 7), (3, 6), (4, 6), (4, 7)):
            out.append(sdo_xfer_inst(xf, t, 2, pre=pre, dom=14, ubl=4, nseg=2, bs=2, fill=0 if xf == 0 else 3, ak=(1,) if xf == 4 else ()))
        # transfers of at most 4 bytes on domain / string (stale offset of the earlier access)
        out.append(sdo_xfer_inst(1, 6, 2, pre=pre, dom=14, nseg=0, fill=3))
        out.append(sdo_xfer_inst(3, 6, 2, pre=pre, dom=14, nseg=0, fill=3))
        out.append(sdo_xfer_inst(2, 6, 2, pre=pre, dom=14, nseg=0, fill=3))
        if (pre - 1) % 5 in (1, 4) and pre != 11:
            out.append(sdo_xfer_inst(2, 7, 2, pre=pre, ptgt=7, dom=14, nseg=0, fill=3))
            out.append(sdo_xfer_inst(4, 7, 2, pre=pre, ptgt=7, dom=14, ubl=3, nseg=0, bs=2, ak=(0,), fill=3))
    return out


def sdo_two_servers(tier):
    out = []
    for ph in range(5):
        for t in ((6, 2, 9) if tier == 'quick' else (0, 2, 3, 6, 7, 8, 9)):
            if ph == 4 and t == 5:
                continue
            defs = dict(NODE_DEFS)
            defs.update({'PH': ph, 'TGT': t, 'FM': 0, 'CO_VERIF_SDO_BUF_SEG': 2, 'CO_SSDO_N': 2, 'OD_DOM_SIZE': 16})
            out.append(Inst('sdo_step2_n2_ph%d_%s' % (ph, SDO_TGT[t]), 'sdo_step.c', defs, unwind=22, unwindset=node_unwind(2), objbits=10,
                            harness_only=['PH', 'TGT', 'FM'], family='sdo_step',
                            bounds='two SDO servers: one arbitrary frame for server 0 (phase %d, object %s) while server 1 is in an arbitrary state of any phase' % (ph, SDO_TGT[t])))
    return out


def c04(tier):
    out = [i for i in sdo_step_insts(tier) if ('_ph0_' in i.name or '_ph1_' in i.name) and ('_n4_' in i.name or tier != 'quick')]
    # requests arriving inside a block transfer (client abort must end it; every later request is answered again)
    out += [i for i in sdo_step_insts('quick') if '_n2_' in i.name and ('_ph2_' in i.name or '_ph3_' in i.name or '_ph4_' in i.name)]
    defs = dict(NODE_DEFS)
    defs.update({'CO_VERIF_SDO_BUF_SEG': 2})
    out.append(Inst('sdo_lookup', 'sdo_lookup.c', defs, unwind=90, unwindset=node_unwind(2), objbits=10, weight=20,
                    bounds='template dictionary (%s entries), multiplexer 24-bit symbolic, R/W flag bits of every application entry symbolic, request direction symbolic, idle server state arbitrary' % 'about 40'))
    for sq in ('0', '1', '10', '01'):
        d3 = dict(NODE_DEFS)
        d3.update({'CO_VERIF_SDO_BUF_SEG': 2, 'CO_SSDO_N': 2, 'SRVSEQ': '"%s"' % sq})
        out.append(Inst('sdo_uabort_%s' % sq, 'sdo_uabort.c', d3, unwind=24, unwindset=node_unwind(2), objbits=10, harness_only=['SRVSEQ'], family='sdo_uabort',
                        extra_types={'UTypeA': ['USize', None, 'URead', 'UWriteA', None], 'UTypeR': ['USize', None, 'URead', 'UWriteR', None]},
                        bounds='two SDO servers, requests to servers %s: application type supplying a symbolic abort code, then refusals with standard codes' % sq))
    defs2 = dict(defs)
    defs2.update({'CO_SSDO_N': 2})
    out.append(Inst('sdo_lookup_2srv', 'sdo_lookup.c', defs2, unwind=90, unwindset=node_unwind(2), objbits=10, weight=20,
                    bounds='as sdo_lookup with two SDO servers configured'))
    return out


NMT_IN = ['nmtcmd', 'sdo', 'rpdo', 'sync', 'hb', 'lss', 'foreign', 'api', 'emcy', 'tpdo', 'hbdue']
NMT_MODE = {1: 'init', 2: 'preop', 3: 'op', 4: 'stop'}


def lss_unwind():
    return {'COLssCheck': 30}


def c09(tier):
    out = tpdo_nmt_insts() + [rpdo_inst('w_b', ch=0, t0=1, t1=255, seq='RNS'), rpdo_inst('w_b', ch=0, t0=1, t1=255, seq='NRNLS')]
    for mode in (1, 2, 3, 4):
        for k, nm in enumerate(NMT_IN):
            defs = dict(NODE_DEFS)
            defs.update({'MODE': mode, 'IN': k, 'CO_VERIF_SDO_BUF_SEG': 2})
            uw = node_unwind(2)
            uw.update(lss_unwind())
            uw.update({'CONmtModeDecode': 7, 'COSyncInit': 4, 'COSyncHandler': 4, 'COSyncUpdate': 4, 'COSyncRx': 4, 'COTmrClear': 4,
                       'CORPdoCheck': 4, 'CORPdoReset': 10, 'CORPdoWrite': 10, 'CORPdoGetMap': 10, 'COTPdoGetMap': 10, 'COTPdoTx': 10,
                       'COTmrDelete': 6, 'COTmrInsert': 6, 'COTmrRemove': 6, 'COTmrProcess': 6, 'COTNmtHbConsInit': 4, 'CONmtHbConsActivate': 4,
                       'CONmtHbConsCheck': 4, 'CONmtLastHbState': 4, 'COTEmcyHistInit': 6, 'COEmcyHistReset': 6, 'COEmcySend': 7})
            out.append(Inst('nmt_step_%s_%s' % (NMT_MODE[mode], nm), 'nmt_step.c', defs, unwind=102 if k == 10 else 24, unwindset=uw, objbits=10,
                            harness_only=['MODE', 'IN'], family='nmt_step',
                            bounds='mode %s, input class %s with all data of the class symbolic (payload, dlc, cs/target, identifier)' % (NMT_MODE[mode], nm)))
            if nm in ('nmtcmd', 'sync', 'foreign', 'sdo'):
                # the same on a dictionary without the optional SYNC objects
                d2 = dict(defs)
                d2['NOSYNC'] = None
                out.append(Inst('nmt_step_%s_%s_nosync' % (NMT_MODE[mode], nm), 'nmt_step.c', d2, unwind=24, unwindset=uw, objbits=10,
                                harness_only=['MODE', 'IN', 'NOSYNC'], family='nmt_step',
                                bounds='mode %s, input class %s, dictionary without 1005h/1006h' % (NMT_MODE[mode], nm)))
    return out


def c15(tier):
    out = []
    ops = ['set', 'clr', 'reset', 'wr1003', 'rd1003', 'get']
    cfgs = [(h, mode, op, (4 if tier == 'quick' else 6)) for h in ((1, 2, 3) if tier == 'quick' else (1, 2, 3, 4)) for mode in (2, 3, 4) for op in range(6)
            if not (mode != 2 and tier == 'quick' and h != 2)]
    # error tables that span several status bytes (more than 8 / 16 errors)
    cfgs += [(2, 2, op, ne) for op in ((2, 1) if tier == 'quick' else (0, 1, 2, 5)) for ne in ((12,) if tier == 'quick' else (12, 20))]
    if True:
        if True:
            for h, mode, op, ne in cfgs:
                ring = [None]
                if op == 0:
                    ring = [(n, n) for n in range(h)] + [(h, o) for o in range(1, h + 1)]
                for rg in ring:
                    defs = dict(NODE_DEFS)
                    defs.update({'MODE': mode, 'OP': op, 'OD_EMCY_H': h, 'CO_EMCY_N': ne, 'CO_VERIF_SDO_BUF_SEG': 2})
                    if rg:
                        defs.update({'HNUM': rg[0], 'HOFF': rg[1]})
                    uw = node_unwind(2)
                    uw.update({'COTEmcyHistInit': h + 3, 'COEmcyHistReset': h + 3, 'COEmcySend': 7, 'COEmcyReset': ne + 2, 'COEmcyInit': max(9, ne + 2), 'COEmcyCnt': max(9, ne + 2),
                               'm_reg': ne + 2, 'm_cnt': ne + 2, 'check_state': max(9, ne + 2), 'harness': max(20, ne + 4), 'COTmrClear': 4})
                    uw.update(lss_unwind())
                    out.append(Inst('emcy_step_h%d_%s_%s%s%s' % (h, NMT_MODE[mode], ops[op], ('_r%d_%d' % rg) if rg else '', ('_e%d' % ne) if ne > 6 else ''), 'emcy_step.c', defs, unwind=max(20, ne + 4),
                                    unwindset=uw, objbits=10, harness_only=['MODE', 'OP', 'HNUM', 'HOFF'], family='emcy_step',
                                    bounds='%d errors, history depth %d, mode %s, operation %s; table, active set, history contents%s, 1014h, arguments symbolic' % (
                                        ne, h, NMT_MODE[mode], ops[op], (' (ring fill %d, position %d)' % rg) if rg else ', ring fill and position')))
    return out


LSS_KNOWN = [4, 64, 65, 66, 67, 21, 19, 17, 23, 90, 91, 92, 93, 94, 70, 71, 72, 73, 74, 75, 76]


def c18(tier):
    out = []
    uw = node_unwind(2)
    uw.update(lss_unwind())
    uw.update({'COLssInit': 6, 'COTmrClear': 4, 'COTmrDelete': 6, 'COTmrInsert': 6, 'COTmrRemove': 6, 'COSyncInit': 4, 'COEmcyReset': 6})
    for mode in (2, 3, 4):
        if tier == 'quick':
            css = LSS_KNOWN + ([0, 3, 5, 16, 18, 20, 22, 24, 63, 68, 69, 77, 89, 95, 128, 255] if mode == 2 else [])
            if mode != 2:
                css = [4, 67, 75, 17, 19, 23, 21, 94]
        else:
            css = list(range(256))
        for cs in css:
            for lm in (0, 1):
                defs = dict(NODE_DEFS)
                defs.update({'MODE': mode, 'ACT': 0, 'CS': cs, 'LMODE': lm, 'CO_VERIF_SDO_BUF_SEG': 2})
                out.append(Inst('lss_step_%s_%s_cs%d' % (NMT_MODE[mode], 'conf' if lm else 'wait', cs), 'lss_step.c', defs, unwind=20, unwindset=uw, objbits=10,
                                harness_only=['MODE', 'ACT', 'CS', 'LMODE'], family='lss_step',
                                bounds='command specifier %d in LSS %s state; step/pending configuration/flags, identity 1018h:1..4, node id, arguments and dlc symbolic; NMT mode %s' % (
                                    cs, 'configuration' if lm else 'waiting', NMT_MODE[mode])))
    defs = dict(NODE_DEFS)
    defs.update({'MODE': 2, 'ACT': 1, 'CO_VERIF_SDO_BUF_SEG': 2})
    out.append(Inst('lss_activate_preop', 'lss_step.c', defs, unwind=20, unwindset=uw, objbits=10, harness_only=['MODE', 'ACT', 'CS', 'LMODE'], family='lss_step',
                    bounds='store/load/reset scenario with symbolic node id and bit-timing index'))
    return out


def hbc_shapes(E):
    import itertools
    out = [()]
    for r in range(1, E + 1):
        for perm in itertools.permutations(range(1, E + 1), r):
            out.append(perm)
    return out


def c11(tier):
    out = []
    ops = ['write', 'hb', 'time', 'events', 'state']
    for E in ((2,) if tier == 'quick' else (2, 3)):
        for sh in hbc_shapes(E):
            for op in range(5):
                for wk, run in [(w, r) for w in (range(1, E + 1) if op == 0 else ((1, 2, 3, 4, 6) if op == 2 else (1,))) for r in range(1 << E)]:
                    if op >= 3 and tier == 'quick' and len(sh) not in (0, E):
                        continue
                    if any(((run >> (x - 1)) & 1) == 0 for x in ()) or (run & ~sum(1 << (x - 1) for x in sh)):
                        continue      # only active entries can have a running monitor
                    if op >= 3 and run not in (0, sum(1 << (x - 1) for x in sh)):
                        continue
                    if op == 2 and run == 0:
                        continue
                    defs = dict(NODE_DEFS)
                    defs.update({'OP': op, 'WK': wk, 'RUN': run, 'TK': wk, 'OD_HBC_E': E, 'SHAPE': '{' + ','.join(str(x) for x in (sh or (0,))) + '}', 'SHAPEN': len(sh),
                                 'CO_VERIF_SDO_BUF_SEG': 2, 'OD_TMR_N': E})
                    uw = node_unwind(2)
                    uw.update(lss_unwind())
                    uw.update({'CONmtModeDecode': 7, 'COTNmtHbConsInit': E + 2, 'CONmtHbConsActivate': E + 2, 'CONmtHbConsCheck': E + 2, 'CONmtLastHbState': E + 2,
                               'CONmtGetHbEvents': E + 2, 'COTmrDelete': E + 1, 'COTmrInsert': E + 1, 'COTmrRemove': E + 2, 'COTmrProcess': E + 1, 'check_chain': E + 2,
                               'COTmrReset': E + 1, 'CoVerifTmrPool': E + 1,
                               'COSyncInit': 4, 'COTmrClear': 4})
                    nbs = (11,)
                    if op in (1, 2) and len(sh) == E and (op == 1 or wk == 1):
                        nbs = (11, 128 - E, 1)          # node ids at both ends of the range 1..127
                    for nb in nbs:
                        d2 = dict(defs)
                        d2['NODE_BASE'] = nb
                        out.append(Inst('hbc_step_e%d_s%s_r%d_%s%s%s' % (E, ''.join(str(x) for x in sh) or '0', run, ops[op], ('%d' % wk) if op in (0, 2) else '', ('_nb%d' % nb) if nb != 11 else ''), 'hbc_step.c', d2,
                                    unwind=20, unwindset=uw, objbits=10, harness_only=['OP', 'WK', 'SHAPE', 'SHAPEN', 'RUN', 'TK', 'NODE_BASE'], family='hbc_step',
                                    bounds='%d consumer entries, active chain %s, running monitors mask %d, operation %s%s; node ids, times 1..5 ms, counters, states symbolic' % (
                                        E, list(sh), run, ops[op], (' to entry %d' % wk) if op == 0 else ((' of %d ticks' % wk) if op == 2 else ''))))
    return out


HBP_SEQS_QUICK = [
    'TTTTT', 'WTTTT', 'ATTTT', 'TWTTT', 'NTTTT', 'STTTT', 'NSTPT', 'RTTTT', 'TRTTT', 'WRTTT', 'NRTTT',
    'NETTT', 'NEGTT', 'ETGTT', 'NIGGT', 'NIGTT', 'NIETT', 'NEITG', 'NGETT', 'CTTTT', 'CDTTT', 'CTDTT', 'NCGTT', 'NEDTT',
    'NEGET', 'NEWTT', 'ENGTT', 'NESNT', 'NEPNT', 'TNETG', 'NEEWGTT', 'NEEAGTT', 'NIGEWGT', 'NEIGEGT',
]


def hbp_inst(seq, hb0=2, sync=False, name=None, vals=None, freq=None):
    defs = dict(NODE_DEFS)
    defs.update({'OPSEQ': '"%s"' % seq, 'HB0': hb0, 'CO_VERIF_SDO_BUF_SEG': 2, 'OD_TMR_N': 4})
    if vals is not None:
        defs['VALS'] = '{' + ','.join(str(v) for v in vals) + '}'
    if sync:
        defs['CHECK_SYNC'] = None
    if freq:
        defs['OD_FREQ'] = freq
    uw = node_unwind(2)
    uw.update(lss_unwind())
    uw.update({'check_hb_ticks': 6, 'COTmrDelete': 5, 'COTmrInsert': 5, 'COTmrRemove': 6, 'COTmrProcess': 5, 'COTmrReset': 5, 'CoVerifTmrPool': 5, 'COTmrClear': 4,
               'COSyncInit': 4, 'COSyncHandler': 4, 'COSyncUpdate': 4, 'COTPdoGetMap': 10, 'COTPdoTx': 10, 'CORPdoReset': 10, 'CORPdoGetMap': 10,
               'count_id': 17, 'COEmcyReset': 6})
    tmr_cbs = ['app_cb']
    return Inst(name or ('hbp_%s_h%d%s%s' % (seq, hb0, ('_v' + '.'.join(str(v) for v in vals)) if (vals is not None and max(vals) > 9) else (('_v' + ''.join(str(v) for v in vals)) if vals is not None else ''), ('_f%d' % freq) if freq else '')), 'hbp_bmc.c', defs, unwind=18, unwindset=uw, objbits=10, tmr_cbs=tmr_cbs,
                harness_only=['OPSEQ', 'HB0', 'CHECK_SYNC', 'VALS'], family='hbp_bmc',
                bounds='operation kinds %s (see hbp_bmc.c), initial 1017h %d ms, written times per step %s, timer frequency 1 kHz, pool 4' % (seq, hb0, list(vals) if vals is not None else '0..3 ms symbolic'))


def c10(tier):
    out = []
    seqs = list(HBP_SEQS_QUICK)
    if tier != 'quick':
        import itertools
        for t in itertools.product('TWGE', repeat=4):
            seqs.append('N' + ''.join(t) + 'T')
    valsets = [(1, 1, 1, 1, 1, 1, 1), (3, 2, 1, 2, 3, 1, 2), (0, 1, 0, 2, 2, 0, 1)] if tier == 'quick' else \
              [(1, 1, 1, 1, 1, 1, 1), (3, 2, 1, 2, 3, 1, 2), (0, 1, 0, 2, 2, 0, 1), (1, 3, 3, 1, 0, 2, 3)]
    # a timer in front of the heartbeat is deleted after part of its time elapsed (TPDO event timer restarted by a trigger,
    # application timer deleted); heartbeat switched on only after event-time writes (the new timer reuses freed ids)
    # long periods at high timer frequencies (period checked in the timer lists), heartbeat chained behind another action of the same tick
    for fq, vs in ((1000000, (70, 66, 1)), (1000000, (65, 6554, 20000)), (10000, (6553, 6554, 60000)), (100000, (700, 1, 655))):
        out.append(hbp_inst('WAW', 2, vals=vs, freq=fq))
    out.append(hbp_inst('INGCWTTTTTT', 2, vals=(1, 0, 0, 3, 3, 0, 0, 0, 0, 0, 0)))   # new heartbeat due on the tick of a pending timer that is not the head
    out.append(hbp_inst('CWWTTTT', 2, vals=(2, 2, 2, 0, 0, 0, 0)))
    out.append(hbp_inst('CWWTTTT', 2, vals=(3, 3, 3, 0, 0, 0, 0)))
    out.append(hbp_inst('CWTWTTT', 2, vals=(3, 3, 0, 2, 0, 0, 0)))
    out.append(hbp_inst('NEWTGTTT', 2, vals=(0, 2, 3, 0, 0, 0, 0, 0)))
    out.append(hbp_inst('CWTDTTT', 2, vals=(2, 3, 0, 0, 0, 0, 0)))
    out.append(hbp_inst('CWTTDTT', 2, vals=(3, 3, 0, 0, 0, 0, 0)))
    for sq, vs in (('NEEWGTT', (0, 1, 0, 2, 0, 0, 0)), ('NEEWGTT', (0, 2, 0, 1, 0, 0, 0)), ('NEIEWGTT', (0, 1, 1, 0, 2, 0, 0, 0)), ('NGEWGTTT', (0, 0, 0, 2, 0, 0, 0, 0)),
                   ('NEPWNTT', (0, 1, 0, 2, 0, 0, 0)), ('NEGEWTGT', (0, 2, 0, 0, 1, 0, 0, 0))):
        out.append(hbp_inst(sq, 0, vals=vs))
    for sq in seqs:
        for hb0 in ((2,) if tier == 'quick' else (2, 0)):
            needs = any(c in sq for c in 'WAEICYX')
            for vs in (valsets if needs else [None]):
                out.append(hbp_inst(sq, hb0, vals=vs))
    return out


def c16(tier):
    out = []
    uw = node_unwind(2)
    uw.update(lss_unwind())
    uw.update({'COTmrDelete': 5, 'COTmrInsert': 5, 'COTmrRemove': 6, 'COTmrProcess': 5, 'COTmrReset': 5, 'CoVerifTmrPool': 5, 'COTmrClear': 4,
               'COSyncInit': 4, 'COSyncHandler': 4, 'COSyncUpdate': 4, 'COTPdoGetMap': 10, 'COTPdoTx': 10, 'CORPdoReset': 10, 'CORPdoGetMap': 10, 'COEmcyReset': 6, 'prod_cycle': 6})
    for op in (0, 1):
        for freq in (100, 1000, 1000000):
            defs = dict(NODE_DEFS)
            defs.update({'OP': op, 'OD_FREQ': freq, 'CO_VERIF_SDO_BUF_SEG': 2})
            out.append(Inst('sync_cfg_%s_f%d' % ('1005' if op == 0 else '1006', freq), 'sync_step.c', defs, unwind=18, unwindset=uw, objbits=10,
                            harness_only=['OP', 'MODE'], family='sync_step',
                            bounds='SDO write to %s: stored 1005h (11-bit id, bit 30), stored 1006h and written value symbolic (period <= 6553500 us), stale node error symbolic, timer frequency %d Hz' % (
                                '1005h' if op == 0 else '1006h', freq)))
    defs = dict(NODE_DEFS)
    defs.update({'OP': 2, 'CO_VERIF_SDO_BUF_SEG': 2})
    out.append(Inst('sync_match', 'sync_step.c', defs, unwind=18, unwindset=uw, objbits=10, harness_only=['OP', 'MODE'], family='sync_step',
                    bounds='COSyncUpdate: cached 1005h (11-bit id, flag bits) and frame identifier (29 bit) symbolic'))
    for mode in (2, 3, 4):
        defs = dict(NODE_DEFS)
        defs.update({'OP': 3, 'MODE': mode, 'T1': 254, 'CO_VERIF_SDO_BUF_SEG': 2, 'OD_TPDO': 1, 'CO_TPDO_N': 1})
        out.append(Inst('sync_count_%s' % NMT_MODE[mode], 'sync_step.c', defs, unwind=18, unwindset=uw, objbits=10, harness_only=['OP', 'MODE', 'T1'],
                        family='sync_step',
                        bounds='one SYNC in mode %s, one synchronous TPDO: transmission type 1..240 and SYNC counter symbolic (inductive step over SYNC sequences)' % NMT_MODE[mode]))
    for t1 in (1, 2, 240):
        defs = dict(NODE_DEFS)
        defs.update({'OP': 3, 'MODE': 3, 'T1': t1, 'CO_VERIF_SDO_BUF_SEG': 2})
        out.append(Inst('sync_count2_t%d' % t1, 'sync_step.c', defs, unwind=18, unwindset=uw, objbits=10, harness_only=['OP', 'MODE', 'T1'], family='sync_step',
                        bounds='one SYNC in OPERATIONAL with two synchronous TPDOs: type of channel 0 symbolic 1..240, channel 1 type %d, both SYNC counters symbolic' % t1))
    # producer timing: sequences with SYNC checking on
    seqs = ['XTTTT', 'YXTTT', 'XYTTT', 'XTYTT', 'XTXTT', 'XNTST', 'XSTNT', 'XRTTT', 'XTRTT', 'YXRTT', 'XWTTT', 'NXGTT'] if tier == 'quick' else \
           ['XTTTT', 'YXTTT', 'XYTTT', 'XTYTT', 'XTXTT', 'XNTST', 'XSTNT', 'XRTTT', 'XTRTT', 'YXRTT', 'XWTTT', 'NXGTT', 'YXTTTT', 'XYTYTT', 'XTTXTT', 'YXTRTT', 'XTTYTT']
    for sq in seqs:
        for vs in ((1, 1, 1, 1, 1, 1, 1), (2, 1, 1, 2, 1, 1, 1), (1, 2, 3, 1, 2, 1, 1)):
            i = hbp_inst(sq, 2, sync=True, vals=vs)
            i.name = 'syncprod_' + i.name[4:]
            out.append(i)
    return out


def link(idx, sub, bits):
    return (idx << 16) | (sub << 8) | bits


RPDO_MAPS = {
    'b': [link(0x2100, 0, 8)],
    'w_b': [link(0x2101, 0, 16), link(0x2100, 0, 8)],
    'l_w_b': [link(0x2102, 0, 32), link(0x2101, 0, 16), link(0x2100, 0, 8)],
    'b_l3_w': [link(0x2100, 0, 8), link(0x2102, 0, 24), link(0x2101, 0, 16)],
    'l_al': [link(0x2102, 0, 32), link(0x2105, 0, 32)],
    'd8_b': [link(0x0005, 0, 8), link(0x2100, 0, 8)],
    'b_d16_w': [link(0x2100, 0, 8), link(0x0006, 0, 16), link(0x2101, 0, 16)],
    'd32_l': [link(0x0007, 0, 32), link(0x2102, 0, 32)],
    'b_d8_d16_ab': [link(0x2100, 0, 8), link(0x0002, 0, 8), link(0x0003, 0, 16), link(0x2103, 0, 8)],
    'w_d32_aw': [link(0x2101, 0, 16), link(0x0004, 0, 32), link(0x2104, 0, 16)],
}


def rpdo_inst(mapname, ch=0, t0=254, t1=255, mode=3, seq='R', other=False):
    m = RPDO_MAPS[mapname]
    defs = dict(NODE_DEFS)
    defs.update({'MAP': '{' + ','.join('0x%08X' % x for x in m) + '}', 'MAPN': len(m), 'CH': ch, 'TYPE0': t0, 'TYPE1': t1, 'MODE': mode,
                 'SEQ': '"%s"' % seq, 'CO_VERIF_SDO_BUF_SEG': 2})
    if other:
        defs['OTHER'] = None
    uw = node_unwind(2)
    uw.update(lss_unwind())
    uw.update({'COSyncInit': 4, 'COSyncHandler': 4, 'COSyncUpdate': 4, 'COSyncRx': 9, 'CORPdoCheck': 4, 'CORPdoReset': 10, 'CORPdoWrite': 10, 'CORPdoGetMap': 10,
               'COTPdoGetMap': 10, 'COTPdoTx': 10, 'COTmrClear': 4, 'model_apply': 9, 'COEmcyReset': 6})
    return Inst('rpdo_%s_ch%d_t%d_%d_%s_%s%s' % (mapname, ch, t0, t1, NMT_MODE[mode], seq, '_2ch' if other else ''), 'rpdo_step.c', defs, unwind=18, unwindset=uw, objbits=10,
                harness_only=['MAP', 'MAPN', 'CH', 'TYPE0', 'TYPE1', 'MODE', 'SEQ', 'OTHER'], family='rpdo_step',
                bounds='mapping %s on channel %d, channel types %d/%d (255 = invalid), mode %s, sequence %s; payload, dlc, object contents symbolic' % (
                    mapname, ch, t0, t1, NMT_MODE[mode], seq))


def c13(tier):
    out = []
    for mn in RPDO_MAPS:
        out.append(rpdo_inst(mn))                       # asynchronous, immediate
        out.append(rpdo_inst(mn, t0=1, seq='RS'))       # synchronous: effect at the next SYNC
    for mode in (2, 4):
        out.append(rpdo_inst('l_w_b', mode=mode, seq='RF'))
    out.append(rpdo_inst('l_w_b', seq='FR'))
    # both channels in use: two synchronous receptions inside one SYNC period, mixed synchronous / asynchronous
    for ch, t0, t1, sqs in ((0, 1, 1, ('RrS', 'rRS', 'RrSS', 'RSrS')), (1, 1, 240, ('RrS', 'rRSS')), (0, 1, 254, ('RrS', 'rSR')), (0, 254, 1, ('RrS', 'rRSS'))):
        for sq in sqs:
            out.append(rpdo_inst('w_b', ch=ch, t0=t0, t1=t1, seq=sq, other=True))
    # NMT changes between a reception and its SYNC
    for sq in ('RPS', 'RZS', 'RPNS', 'RZNLS', 'RPLNS', 'RSPNS', 'PNRS', 'RPNRS', 'ZNRLS'):
        out.append(rpdo_inst('w_b', ch=0, t0=1, t1=255, seq=sq))
    for sq in ('RPNR', 'ZRNR', 'PRS'):
        out.append(rpdo_inst('w_b', ch=0, t0=254, t1=255, seq=sq))
    # channel tables: which channels exist, which are synchronous (sync above async included)
    for ch, t0, t1 in ((1, 255, 254), (1, 254, 254), (1, 254, 1), (0, 1, 254), (1, 1, 1), (1, 255, 1), (0, 240, 255)):
        seqs = ['R', 'RS'] if (t0 if ch == 0 else t1) > 240 else ['RS', 'S', 'SR', 'RSS', 'SRS', 'RLS', 'RSL', 'RRS', 'LSR']
        if tier != 'quick' and (t0 if ch == 0 else t1) <= 240:
            import itertools
            seqs = sorted(set(seqs + [''.join(t) for n in (1, 2, 3) for t in itertools.product('RSL', repeat=n)]))
        for sq in seqs:
            out.append(rpdo_inst('w_b', ch=ch, t0=t0, t1=t1, seq=sq))
    return out


def c14(tier):
    # the configuration a client left behind takes effect exactly as stored when the PDO is re-validated / the node started
    out = [tpdo_inst('aw_ab', 'NVMUG', 0, 0, 254, map2=()), tpdo_inst('aw_ab', 'NGVMUGO', 0, 0, 254, map2=()), tpdo_inst('aw_ab', 'VMUNG', 0, 0, 254, map2=()),
           tpdo_inst('aw_ab', 'NVMUGo', 0, 0, 254, map2=(link(0x2105, 0, 32), link(0x2103, 0, 8), link(0x2101, 0, 16))),
           tpdo_inst('aw_ab', 'NVMUOo', 0, 0, 254, vals=(2, 3, 2, 3, 2, 3, 2, 3, 2, 3, 2, 3)),
           tpdo_inst('aw_ab', 'NPVKUNYYG', 0, 0, 2, type2=255), tpdo_inst('aw_ab', 'NPVKUNYYY', 0, 0, 255, type2=1), tpdo_inst('aw_ab', 'NVKUYYYY', 0, 0, 2, type2=255),
           rpdo_inst('b_d16_w'), rpdo_inst('b_l3_w', t0=1, seq='RS'), rpdo_inst('w_b', t0=240, seq='RS'), rpdo_inst('w_b', t0=240, seq='RLS'), rpdo_inst('w_b', t0=239, seq='RS')]
    uw = node_unwind(2)
    uw.update(lss_unwind())
    uw.update({'COSyncInit': 4, 'COSyncHandler': 4, 'COSyncUpdate': 4, 'COSyncRx': 9, 'CORPdoCheck': 4, 'CORPdoReset': 10, 'CORPdoWrite': 10, 'CORPdoGetMap': 10,
               'COTPdoGetMap': 10, 'COTPdoTx': 10, 'COTmrClear': 4, 'COEmcyReset': 6, 'COTPdoNumWrite': 11, 'sum_bytes': 10, 'map_ok': 130,
               'COTmrDelete': 5, 'COTmrInsert': 5, 'COTmrRemove': 6})
    tg = ['cobid', 'type', 'count', 'map1', 'map2', 'map3', 'map4', 'map5', 'map6', 'map7', 'map8']
    for d in (0, 1):
        for maps in (4, 8):
            for t in range(3 + maps):
                if maps == 8 and t not in (2, 7, 10) and tier == 'quick':
                    continue
                if maps == 8 and t in (0, 1):
                    continue
                for mode in ((2, 3) if t <= 1 else (2,)):
                    defs = dict(NODE_DEFS)
                    defs.update({'DIR': d, 'TGT': t, 'MODE': mode, 'CO_VERIF_SDO_BUF_SEG': 2, 'OD_MAPS': maps})
                    out.append(Inst('pdocfg_%s_%s_%s%s' % ('tpdo' if d else 'rpdo', tg[t], NMT_MODE[mode], '_m8' if maps == 8 else ''), 'pdocfg_step.c', defs, unwind=140, unwindset=uw, objbits=10,
                                    harness_only=['DIR', 'TGT', 'MODE'], family='pdocfg_step',
                                    bounds='one SDO write to %s %s in %s: stored COB-ID (11 bit + valid bit), type, count 0..%d, %d mapping entries and the written value all symbolic' % (
                                        'TPDO 0' if d else 'RPDO 0', tg[t], NMT_MODE[mode], maps, maps)))
    return out


TPDO_MAPS = {
    'ab': [link(0x2103, 0, 8)],
    'aw_ab': [link(0x2104, 0, 16), link(0x2103, 0, 8)],
    'al_aw_ab_b': [link(0x2105, 0, 32), link(0x2104, 0, 16), link(0x2103, 0, 8), link(0x2100, 0, 8)],
    'ab_al3_w': [link(0x2103, 0, 8), link(0x2105, 0, 24), link(0x2101, 0, 16)],
    'l_al': [link(0x2102, 0, 32), link(0x2105, 0, 32)],
    'b_b_b_b': [link(0x2100, 0, 8), link(0x2103, 0, 8), link(0x2100, 0, 8), link(0x2103, 0, 8)],
    'w_l3_l3': [link(0x2101, 0, 16), link(0x2102, 0, 24), link(0x2105, 0, 24)],
}

TPDO_SEQS = [
    # (sequence, inhibit(100us), event(ms), type, vals)
    ('NG', 0, 0, 254), ('G', 0, 0, 254), ('NSG', 0, 0, 254), ('NPG', 0, 0, 254), ('NO', 0, 0, 255), ('NQ', 0, 0, 254), ('NOO', 0, 0, 254),
    ('NGGTTG', 20, 0, 254), ('NGGTGTT', 20, 0, 254), ('NGTTTG', 30, 0, 254), ('NOT', 0, 2, 254), ('NOG', 10, 0, 254), ('NGQTT', 10, 0, 254),
    ('NTTTT', 0, 2, 254), ('NTGTTT', 0, 2, 254), ('NTTGTT', 0, 3, 255), ('NGTTTT', 20, 2, 254), ('NGTGTTT', 20, 3, 254), ('NGGTTTT', 20, 2, 254),
    ('NGETT', 20, 0, 254), ('NGGETTG', 20, 0, 254), ('NGGETTT', 30, 2, 254), ('NETTT', 0, 0, 254), ('NTETT', 0, 3, 254), ('NGEGTG', 20, 0, 254),
    ('NIGGT', 0, 0, 254), ('NISNGGTT', 0, 0, 254), ('NGSNGTG', 30, 0, 254), ('NGSTNTG', 20, 0, 254), ('NTSNTTT', 0, 2, 254), ('NGPNGGT', 20, 0, 254),
    ('NVG', 0, 0, 254), ('NVUG', 0, 0, 254), ('VNG', 0, 0, 254), ('NVUTTT', 0, 2, 254), ('NGVUG', 30, 0, 254),
    ('NYYYY', 0, 0, 1), ('NYYYY', 0, 0, 2), ('NYYYYY', 0, 0, 3), ('NYYSYNY', 0, 0, 2), ('YNYY', 0, 0, 1), ('NYSYNYY', 0, 0, 2), ('NYY', 0, 0, 240),
]


def tpdo_inst(mapname, seq, inh, evt, ttype, vals=(1, 1, 1, 1, 1, 1, 1, 1, 1), type2=None, map2=None):
    m = TPDO_MAPS[mapname]
    defs = dict(NODE_DEFS)
    defs.update({'MAP': '{' + ','.join('0x%08X' % x for x in m) + '}', 'MAPN': len(m), 'OPSEQ': '"%s"' % seq, 'INH0': inh, 'EVT0': evt, 'TTYPE': ttype,
                 'VALS': '{' + ','.join(str(v) for v in vals) + '}', 'CO_VERIF_SDO_BUF_SEG': 2, 'CO_TPDO_N': 1, 'OD_TMR_N': 4})
    if (('O' in seq) or ('Q' in seq)) and (inh or evt):
        defs['CONCV'] = None
    if type2 is not None:
        defs['TYPE2'] = type2
    if map2 is not None:
        defs['MAP2'] = '{' + (','.join('0x%08X' % x for x in map2) or '0') + '}'
        defs['MAP2N'] = len(map2)
    uw = node_unwind(2)
    uw.update(lss_unwind())
    uw.update({'COSyncInit': 4, 'COSyncHandler': 4, 'COSyncUpdate': 4, 'COSyncRx': 9, 'CORPdoCheck': 4, 'CORPdoReset': 10, 'CORPdoWrite': 10, 'CORPdoGetMap': 10,
               'COTPdoGetMap': 10, 'COTPdoTx': 10, 'COTmrClear': 4, 'COEmcyReset': 6, 'COTmrDelete': 5, 'COTmrInsert': 5, 'COTmrRemove': 6, 'COTmrProcess': 5,
               'COTmrReset': 5, 'CoVerifTmrPool': 5, 'check_frame': 9, 'COTPdoTrigObj': 9, 'COTPdoMapClear': 9, 'COTPdoMapAdd': 9})
    return Inst('tpdo_%s_%s_i%d_e%d_t%d%s%s%s' % (mapname, seq, inh, evt, ttype, ('to%d' % type2) if type2 is not None else '', ('_m2n%d' % len(map2)) if map2 is not None else '', '' if vals[0] == 1 and len(set(vals)) == 1 else '_v' + ''.join(str(v) for v in vals[:len(seq)])),
                'tpdo_bmc.c', defs, unwind=18, unwindset=uw, objbits=10,
                harness_only=['MAP', 'MAPN', 'OPSEQ', 'INH0', 'EVT0', 'TTYPE', 'VALS', 'CONCV', 'TYPE2', 'MAP2', 'MAP2N'], family='tpdo_bmc',
                bounds='mapping %s, operations %s, inhibit %d x100us, event %d ms, type %d, written times %s; mapped values symbolic' % (mapname, seq, inh, evt, ttype, list(vals[:len(seq)])))


def tpdo_nmt_insts():
    # NMT commands that do not change the mode must not disturb PDO communication (also part of C09)
    return [tpdo_inst('aw_ab', 'NGGSTT', 20, 0, 254), tpdo_inst('aw_ab', 'NGGPTT', 20, 0, 254), tpdo_inst('aw_ab', 'NGGPTNT', 20, 0, 254), tpdo_inst('aw_ab', 'NYNY', 0, 0, 2), tpdo_inst('aw_ab', 'NYNYNY', 0, 0, 3), tpdo_inst('aw_ab', 'NGGNTT', 20, 0, 254),
            tpdo_inst('aw_ab', 'NTNTT', 0, 2, 254), tpdo_inst('aw_ab', 'NGNGTT', 20, 0, 254)]


def tpdo2_insts(tier):
    out = []
    ords = ['awl', 'laq', 'a01', 'qaw', 'aVaUa', 'VaUa', 'wVlUaw'] if tier == 'quick' else ['awl', 'laq', 'a01', 'qaw', 'aVaUa', 'VaUa', 'wVlUaw', 'aaa', 'lwa10', 'VUVUa', '0a1a', 'VwU0a']
    for o in ords:
        defs = dict(NODE_DEFS)
        defs.update({'ORD': '"%s"' % o, 'CO_VERIF_SDO_BUF_SEG': 2, 'OD_TMR_N': 4})
        uw = node_unwind(2)
        uw.update(lss_unwind())
        uw.update({'COSyncInit': 4, 'COSyncHandler': 4, 'COSyncUpdate': 4, 'CORPdoReset': 10, 'CORPdoGetMap': 10, 'COTPdoGetMap': 10, 'COTPdoTx': 10, 'COTmrClear': 4, 'COEmcyReset': 6,
                   'COTmrDelete': 5, 'COTmrInsert': 5, 'COTmrRemove': 6, 'COTmrReset': 5, 'CoVerifTmrPool': 5, 'count_id': 17, 'check_frames': 17, 'COTPdoMapDel': 17})
        out.append(Inst('tpdo2_%s' % o, 'tpdo2.c', defs, unwind=18, unwindset=uw, objbits=10, harness_only=['ORD'], family='tpdo2',
                        bounds='two event-driven TPDOs sharing object 2103h, operations %s; object values symbolic' % o))
    return out


def c12(tier):
    out = tpdo2_insts(tier)
    for mn in TPDO_MAPS:
        out.append(tpdo_inst(mn, 'NG', 0, 0, 254))
        out.append(tpdo_inst(mn, 'NYY', 0, 0, 2))
    for sq, inh, evt, tt in TPDO_SEQS:
        out.append(tpdo_inst('aw_ab', sq, inh, evt, tt))
        if 'E' in sq or 'I' in sq:
            out.append(tpdo_inst('aw_ab', sq, inh, evt, tt, vals=(2, 3, 2, 3, 2, 3, 2, 3, 2)))
            out.append(tpdo_inst('aw_ab', sq, inh, evt, tt, vals=(0, 0, 0, 0, 0, 0, 0, 0, 0)))
    # retyping between synchronous and event-driven, inhibit time ended before a parameter write, two-phase histories
    for sq, inh, evt, tt, t2 in (('NVKUYYYY', 0, 0, 2, 255), ('NVKUYYG', 0, 0, 2, 254), ('VKUNYYYG', 0, 0, 3, 254), ('NVKUYYYY', 0, 0, 254, 2),
                                 ('NGVKUYYY', 0, 0, 255, 1), ('NYVKUYYY', 0, 0, 2, 3), ('NVKUTTG', 0, 2, 1, 254)):
        out.append(tpdo_inst('aw_ab', sq, inh, evt, tt, type2=t2))
    out += tpdo_nmt_insts()
    for sq in ('NQ', 'NH', 'NHQ', 'NOH'):
        out.append(tpdo_inst('al_aw_ab_b', sq, 0, 0, 254))
    out.append(tpdo_inst('aw_ab', 'NPVKUNYYG', 0, 0, 2, type2=255))
    out.append(tpdo_inst('aw_ab', 'NPVKUNYYY', 0, 0, 255, type2=1))
    for sq in ('NVMUG', 'NGVMUGO', 'VMUNG'):
        out.append(tpdo_inst('aw_ab', sq, 0, 0, 254, map2=()))
    out.append(tpdo_inst('aw_ab', 'NVMUGo', 0, 0, 254, map2=(link(0x2105, 0, 32), link(0x2103, 0, 8), link(0x2101, 0, 16))))
    # remapping while OPERATIONAL: the object-to-TPDO links must follow the mapping in effect
    for sq in ('NVMUOo', 'NVMUoO', 'NVUVUVUVMUo', 'VMUNOo', 'NVMUSNOo'):
        out.append(tpdo_inst('aw_ab', sq, 0, 0, 254, vals=(2, 3, 2, 3, 2, 3, 2, 3, 2, 3, 2, 3)))
    for sq, inh, evt, tt in (('NGTTETT', 20, 0, 254), ('NGTTTETT', 20, 0, 254), ('NGTTVUG', 20, 0, 254), ('NGTTSNG', 20, 0, 254), ('NGTTGTTE', 20, 0, 254),
                             ('NGTTTGE', 20, 2, 254), ('NGTEGTT', 10, 0, 254)):
        out.append(tpdo_inst('aw_ab', sq, inh, evt, tt, vals=(2, 2, 2, 2, 2, 2, 2, 2, 2)))
    if tier != 'quick':
        import itertools
        # (a timer armed by an object-write trigger that later EXPIRES makes cbmc's symbolic execution hang - the TPDO pointer
        #  comes out of the TMap table - so timers are exercised with application triggers, object writes without expiry)
        for t in itertools.product('GTE', repeat=5):
            out.append(tpdo_inst('ab', 'N' + ''.join(t), 20, 2, 254, vals=(1, 2, 1, 2, 1, 2, 1, 2, 1)))
        for t in itertools.product('GOQ', repeat=4):
            out.append(tpdo_inst('ab', 'N' + ''.join(t), 0, 0, 254, vals=(1, 2, 1, 2, 1, 2, 1, 2, 1)))
    return out


def c17(tier):
    out = []
    uw = node_unwind(2)
    uw.update(lss_unwind())
    uw.update({'COSyncInit': 4, 'COTmrClear': 4, 'COEmcyReset': 6, 'EnvNvmRead': 10, 'EnvNvmWrite': 10, 'COTParaStoreWrite': 5, 'COTParaRestoreWrite': 5,
               'CONodeParaLoad': 5, 'setup_groups': 5, 'check_loaded': 10, 'COTmrDelete': 5, 'COTmrRemove': 6, 'COTmrInsert': 5})
    cfgs = []
    for G, types in ((2, (1, 2, 1)), (3, (1, 2, 1)), (3, (2, 1, 2)), (1, (1, 1, 1))):
        for sub in range(1, G + 1):
            for sq in ('asB', 'asaB', 'asaN', 'asaC', 'arB', 'asar', 'asasB', 'auuB'):
                cfgs.append((G, types, sub, sq))
    if tier == 'quick':
        cfgs = [c for c in cfgs if not (c[0] == 3 and c[1][0] == 2 and c[3] not in ('asaC', 'asaN'))]
    for G, types, sub, sq in cfgs:
        defs = dict(NODE_DEFS)
        defs.update({'OD_PARA_G': G, 'SEQ': '"%s"' % sq, 'SUBS': '{%s}' % ','.join(str(sub if k % 2 else (sub % G) + 1 if sq == 'asasB' and k > 2 else sub) for k in range(6)),
                     'TYPES': '{%d,%d,%d}' % types, 'CO_VERIF_SDO_BUF_SEG': 2, 'ENV_NVM_CALLS': 12})
        out.append(Inst('para_g%d_t%s_s%d_%s' % (G, ''.join(str(t) for t in types[:G]), sub, sq), 'para_bmc.c', defs, unwind=30, unwindset=uw, objbits=10,
                        harness_only=['SEQ', 'SUBS', 'TYPES'], family='para_bmc',
                        bounds='%d groups of symbolic size 1..8 and symbolic enable flag, reset types %s, requests to sub-index %d, sequence %s; RAM/NVM images, signatures, the position and size of one NVM short count symbolic' % (
                            G, list(types[:G]), sub, sq)))
    return out


def csdo_inst(kind, dirn=0, size=4, beh=0, j=0, follow=1, cbtmr=False, cbreq=False):
    defs = dict(NODE_DEFS)
    defs.update({'KIND': kind, 'DIRN': dirn, 'SIZE': size, 'BEH': beh, 'J': j, 'FOLLOW': follow, 'CO_VERIF_SDO_BUF_SEG': 2, 'OD_TMR_N': 3})
    uw = node_unwind(2)
    uw.update(lss_unwind())
    uw.update({'COSyncInit': 4, 'COTmrClear': 4, 'COEmcyReset': 6, 'COTmrDelete': 4, 'COTmrInsert': 4, 'COTmrRemove': 5, 'COTmrProcess': 4, 'COTmrReset': 4, 'CoVerifTmrPool': 4,
               'free_actions': 5, 'COCSdoInit': 3, 'COCSdoCheck': 3, 'COCSdoUploadExpedited': 6, 'COCSdoUploadSegmented': 9, 'COCSdoInitDownloadSegmented': 9,
               'COCSdoDownloadSegmented': 9, 'COCSdoRequestDownload': 6})
    if cbtmr:
        defs['CBTMR'] = None
    if cbreq:
        defs['CBREQ'] = None
    behs = ['conforming', 'abort at step %d' % j, 'silent from step %d' % j, 'unknown command at step %d' % j, 'wrong toggle at step %d' % j, 'oversized / foreign answer', 'final segment claiming 7 bytes', 'segments beyond the announced size, never a last one']
    if kind == 1:
        return Inst('csdo_step', 'csdo_e2e.c', defs, unwind=602, unwindset=uw, objbits=10, csdo_cbs=['cb'], harness_only=['KIND', 'DIRN', 'SIZE', 'BEH', 'J', 'FOLLOW'],
                    family='csdo_e2e', bounds='segmented download context with 32-bit symbolic Size (5..600) and Buf_Idx, one segment confirmation')
    return Inst('csdo_%s_s%d_b%d_j%d%s%s' % ('dn' if dirn else 'up', size, beh, j, '' if follow else '_nf', '_cbt' if cbtmr else ('_cbr' if cbreq else '')), 'csdo_e2e.c', defs, unwind=max(size + 20, 24), unwindset=uw,
                objbits=10, csdo_cbs=['cb'], tmr_cbs=['app_cb'], harness_only=['KIND', 'DIRN', 'SIZE', 'BEH', 'J', 'FOLLOW', 'CBTMR', 'CBREQ'], family='csdo_e2e',
                bounds='%s of %d bytes (payload symbolic), server %s, time-out %d ticks; followed by a second transfer with a longer time-out%s' % (
                    'download' if dirn else 'upload', size, behs[beh], 3, '; the completion callback starts an application timer' if cbtmr else ''))


def c19(tier):
    out = [csdo_inst(1)]
    sizes = (1, 3, 4, 5, 7, 8, 14, 15) if tier == 'quick' else (1, 2, 3, 4, 5, 6, 7, 8, 13, 14, 15, 21, 22, 28)
    for d in (0, 1):
        for sz in sizes:
            out.append(csdo_inst(0, d, sz, 0))
            steps = 1 if sz <= 4 else (sz + 6) // 7 + 1
            for beh in (1, 2, 3, 4, 5):
                js = range(steps) if tier != 'quick' else sorted(set([0, steps - 1]))
                for j in js:
                    if beh == 4 and (sz <= 4 or j == 0):
                        continue
                    if beh == 5 and j != 0:
                        continue
                    if tier == 'quick' and sz not in (3, 4, 8, 15):
                        continue
                    out.append(csdo_inst(0, d, sz, beh, j))
    # the completion callback starts a timer: every way a transfer can end
    for d in (0, 1):
        for sz, beh, j in ((4, 0, 0), (8, 0, 0), (4, 1, 0), (4, 2, 0), (8, 2, 1), (8, 1, 1), (4, 3, 0), (8, 4, 1)):
            out.append(csdo_inst(0, d, sz, beh, j, cbtmr=True))
            if (sz, beh) in ((4, 0), (8, 0), (4, 2), (8, 1)):
                out.append(csdo_inst(0, d, sz, beh, j, cbreq=True, follow=0))
    # upload whose final segment claims more data than remains
    for sz in ((5, 8, 15) if tier == 'quick' else (5, 6, 8, 9, 13, 15, 16, 22)):
        out.append(csdo_inst(0, 0, sz, 6, 0))
        out.append(csdo_inst(0, 0, sz, 7, 0))
    return out


RESET_H = ['W', 'WT', 'X', 'XT', 'x', 'NET', 'NIGG', 'NGET', 'kh', 'khT', 'a', 'b', 'c', 'cT', 'L', 'M', 'MM', 'C', 'CT', 'NS', 'WXkhNE', 'WING', 'WINGT', 'INGG', 'XTT', 'WNEGT', 'CWT', 'khTT', 'NWIGE']
RESET_P = ['TTTT', 'uvTT', 'dqwT', 'YyNY', 'hTTTg', 'lcrT', 'emeT', 'NGTT', 'cTTTT', 'NYGT']


def reset_inst(h, p, rst=130, vals=(2, 2, 2, 2, 2, 2, 2, 2), hb0=0, api=False):
    defs = dict(NODE_DEFS)
    defs.update({'HSEQ': '"%s"' % h, 'PSEQ': '"%s"' % p, 'RST': rst, 'HB0': hb0, 'VALS': '{' + ','.join(str(v) for v in vals) + '}',
                 'CO_VERIF_SDO_BUF_SEG': 2, 'CO_TPDO_N': 1, 'OD_TMR_N': 6, 'OD_DOM_SIZE': 16})
    if api:
        defs['RSTAPI'] = None
    uw = node_unwind(2)
    uw.update(lss_unwind())
    uw.update({'COTmrDelete': 7, 'COTmrInsert': 7, 'COTmrRemove': 8, 'COTmrProcess': 7, 'COTmrReset': 7, 'CoVerifTmrPool': 7, 'COTmrClear': 4,
               'COSyncInit': 4, 'COSyncHandler': 4, 'COSyncUpdate': 4, 'COSyncRx': 9, 'COTPdoGetMap': 10, 'COTPdoTx': 10, 'CORPdoReset': 10, 'CORPdoGetMap': 10,
               'CORPdoCheck': 4, 'COEmcyReset': 6, 'COEmcySend': 7, 'COTEmcyHistInit': 5, 'COEmcyHistReset': 5, 'CONmtModeDecode': 7,
               'COTNmtHbConsInit': 4, 'CONmtHbConsActivate': 4, 'CONmtHbConsCheck': 4, 'CONmtLastHbState': 4, 'CONmtGetHbEvents': 4,
               'COCSdoInit': 3, 'COCSdoCheck': 3, 'COCSdoUploadExpedited': 6, 'COLssInit': 6, 'free_actions': 8, 'probe': 9})
    return Inst('reset_%s_%s_%s_r%d%s%s' % (h, p, ''.join(str(v) for v in vals[:len(h)]), rst, ('_h%d' % hb0) if hb0 else '', '_api' if api else ''), 'reset_equiv.c', defs,
                unwind=20, unwindset=uw, objbits=10, tmr_cbs=['app_cb'], csdo_cbs=['cb'],
                harness_only=['HSEQ', 'PSEQ', 'RST', 'HB0', 'VALS', 'RSTAPI'], family='reset_equiv',
                bounds='history %s (times %s), initial 1017h %d ms, NMT reset %d%s, probes %s; heartbeat state, payloads, mapped value symbolic' % (
                    h, list(vals[:len(h)]), hb0, rst, ' through the API' if api else '', p))


def c20(tier):
    out = []
    for h in RESET_H:
        for p in RESET_P:
            out.append(reset_inst(h, p))
    # stack timers in front of / behind an application timer with different times (the reset deletes a partly elapsed head timer)
    for h, vs in (('WCT', (2, 3, 0)), ('CWT', (3, 2, 0)), ('WCTT', (3, 2, 0, 0)), ('XCT', (2, 3, 0)), ('khCT', (3, 0, 2, 0)), ('NECT', (0, 2, 3, 0))):
        for p in ('TTTT', 'NGTT', 'uvTT'):
            out.append(reset_inst(h, p, vals=vs + (2, 2, 2, 2)))
    # pending (not stored) LSS configuration at the reset; tick interrupt served but not yet processed at the reset
    for p in ('sTTT', 'lsTT'):
        out.append(reset_inst('LJ', p))
        out.append(reset_inst('LJ', p, rst=129))
    for h, vs in (('XTt', (2, 0, 0)), ('Wt', (1, 0)), ('khTt', (2, 0, 0, 0)), ('XWTt', (2, 2, 0, 0))):
        for p in ('TTTT', 'YTTT'):
            out.append(reset_inst(h, p, vals=vs + (2, 2, 2, 2)))
    # LSS activate-bit-timing pending (node waits in INIT, switch-delay timer running) when the application resets the node
    for p in ('TTTT', 'lcrT', 'TTTTT'):
        out.append(reset_inst('LA', p, api=True, vals=(0, 3, 2, 2, 2, 2, 2, 2)))
    if tier != 'quick':
        for h in RESET_H:
            for p in RESET_P[:5]:
                out.append(reset_inst(h, p, rst=129))
        for h in ('L', 'c', 'WXkhNE', 'M', 'a'):
            for p in RESET_P[:4]:
                out.append(reset_inst(h, p, api=True))
    return out


CFG_FEATS = ['OD_EMCY', 'OD_SYNC', 'OD_HBC', 'OD_PARA', 'OD_CSDO', 'OD_RPDO', 'OD_TPDO', 'OD_DUMMY']


def cfg_inst(mask, extra=None, tag='', part=0):
    defs = dict(NODE_DEFS)
    defs.update({'CO_VERIF_SDO_BUF_SEG': 2, 'OD_TMR_N': 6, 'ENV_NVM_CALLS': 12, 'PART': part})
    on = []
    for b, f in enumerate(CFG_FEATS):
        if mask & (1 << b):
            defs[f] = 2 if f in ('OD_RPDO', 'OD_TPDO') else None
            on.append(f[3:].lower())
    if extra:
        defs.update(extra)
    uw = node_unwind(2)
    uw.update(lss_unwind())
    uw.update({'COTmrDelete': 7, 'COTmrInsert': 7, 'COTmrRemove': 8, 'COTmrProcess': 7, 'COTmrReset': 7, 'CoVerifTmrPool': 7, 'COTmrClear': 4,
               'COSyncInit': 4, 'COSyncHandler': 4, 'COSyncUpdate': 4, 'COSyncRx': 9, 'COTPdoGetMap': 10, 'COTPdoTx': 10, 'CORPdoReset': 10, 'CORPdoGetMap': 10,
               'CORPdoCheck': 4, 'CORPdoWrite': 10, 'COEmcyReset': 6, 'COEmcySend': 7, 'COTEmcyHistInit': 5, 'COEmcyHistReset': 5, 'CONmtModeDecode': 7,
               'COTNmtHbConsInit': 4, 'CONmtHbConsActivate': 4, 'CONmtHbConsCheck': 4, 'CONmtLastHbState': 4, 'CONmtGetHbEvents': 4,
               'COCSdoInit': 3, 'COCSdoCheck': 3, 'COCSdoUploadExpedited': 6, 'COLssInit': 6, 'EnvNvmRead': 10, 'EnvNvmWrite': 10,
               'COTParaStoreWrite': 5, 'COTParaRestoreWrite': 5, 'CONodeParaLoad': 5, 'COTPdoNumWrite': 11})
    if extra and extra.get('USE_LSS') == 0:
        uw = {k: v for k, v in uw.items() if not (isinstance(k, str) and k.startswith('COLss'))}
    if extra and extra.get('USE_CSDO') == 0:
        uw = {k: v for k, v in uw.items() if not (isinstance(k, str) and k.startswith('COCSdo'))}
    return Inst('cfg_%s%s_p%d' % ('_'.join(on) or 'none', tag, part), 'cfg_sweep.c', defs, unwind=20, unwindset=uw, objbits=10, csdo_cbs=['cb'],
                harness_only=['PART'], family='cfg_sweep', safety_only=True,
                bounds='dictionary with optional groups {%s}%s, input sequence part %d; data of every input and driver faults symbolic, times concrete' % (', '.join(on) or 'none', (' and build parameters %s' % extra) if extra else '', part))


def cfg_insts(tier):
    full = (1 << len(CFG_FEATS)) - 1
    if tier == 'quick':
        masks = [0, full] + [full & ~(1 << b) for b in range(len(CFG_FEATS))]
    else:
        masks = list(range(full + 1))
    out = [cfg_inst(m, part=pt) for m in masks for pt in (0, 1, 2, 3)]
    for extra, tag in (({'CO_SSDO_N': 2}, '_2srv'), ({'USE_LSS': 0}, '_nolss'), ({'USE_CSDO': 0}, '_nocsdo'), ({'OD_FREQ': 100}, '_f100'), ({'OD_FREQ': 1000000}, '_f1M')):
        for m in ((full,) if tier == 'quick' else (full, 0, 0x55, 0xAA)):
            for pt in (0, 1, 2, 3):
                out.append(cfg_inst(m, extra, tag, pt))
    return out


def safety(insts):
    out = []
    for i in insts:
        i.name = 'sfty_' + i.name
        i.safety_only = True
        i.borrowed = True
        i.bounds = (i.bounds or '') + ' [safety sweep: memory safety, arithmetic, termination, fatal error only]'
        out.append(i)
    return out


def c01(tier):
    out = sdo_step_insts(tier) + sdo_two_servers(tier)
    # safety sweep over the step harnesses of the other services: same cbmc built-in checks, arbitrary state + arbitrary input
    sw = [i for i in c18(tier) if '_preop_' in i.name]                                  # every LSS command specifier, both LSS states
    sw += [i for i in c09(tier) if ('_op_' in i.name or '_preop_' in i.name)]           # one input of every class
    sw += [i for i in c13(tier) if i.name.endswith('_op_R') or i.name.endswith('_op_RS') or i.name.endswith('_op_SR')]
    sw += [i for i in c14(tier) if '_preop' in i.name]
    sw += [i for i in c11(tier) if '_write' in i.name or i.name.endswith('_hb')][:(24 if tier == 'quick' else 200)]
    sw += [i for i in c15(tier) if '_preop_' in i.name and '_h2_' in i.name]
    sw += [i for i in c19(tier) if i.name == 'csdo_step' or '_b5_' in i.name or '_b3_' in i.name or '_b7_' in i.name or '_b6_' in i.name]
    sw += [i for i in c16(tier) if i.name.startswith('sync_')]
    sw += [i for i in c08(tier) if '_isr1_' in i.name][:(12 if tier == 'quick' else 60)]
    # timer histories long enough for a corrupted list to be walked / a freed action to be called
    sw += [tmr_inst('tmr_bmc_p2_%s' % ''.join('CDTP'[o] for o in ops), 2, len(ops), 0, ops, tmax=2, weight=4) for ops in ((0, 0, 2, 3, 2, 3), (0, 0, 1, 0, 2, 3), (0, 2, 0, 3, 2, 3))]
    return out + safety(sw) + cfg_insts(tier)


PROPS = {
    'C01': c01,
    'C20': c20,
    'C19': c19,
    'C17': c17,
    'C12': c12,
    'C14': c14,
    'C13': c13,
    'C16': c16,
    'C10': c10,
    'C11': c11,
    'C18': c18,
    'C15': c15,
    'C09': c09,
    'C04': c04,
    'C02': c02,
    'C03': c03,
    'C05': c05,
    'C06': c06,
    'C07': c07,
    'C08': c08,
}


HOME = {'tpdo_bmc': 'C12', 'tpdo2': 'C12', 'rpdo_step': 'C13', 'sdo_step': 'C01', 'sdo_xfer': 'C02', 'tmr_bmc': 'C07'}


def instances(prop, tier):
    f = PROPS.get(prop)
    if f is None:
        return []
    out = f(tier)
    for i in out:
        # a family used outside its home property is a subset there
        if HOME.get(i.family) not in (None, prop) and not (i.family == 'sdo_step' and prop == 'C04') and not (i.family == 'sdo_xfer' and prop in ('C03', 'C05')) and not (i.family == 'tmr_bmc' and prop == 'C08'):
            i.borrowed = True
    return out
