/* C13 rpdo_step: RPDO reception with an enumerated mapping / channel table
 * and symbolic payload, dlc and object contents.
 *   MAP/MAPN   mapping of channel CH as link values (index<<16|sub<<8|bits),
 *              dummies 0002h..0007h allowed
 *   CH         channel under test (0/1); TYPE0/TYPE1 transmission types of the
 *              channels (255 = channel has no valid COB-ID)
 *   MODE       NMT mode 2/3/4
 *   SEQ        string over 'R' (RPDO frame on CH), 'S' (SYNC), 'L' (local write
 *              to the mapped objects), 'F' (frame with a neighbouring identifier),
 *              'r' frame for the OTHER channel (-DOTHER: it maps 2105h),
 *              'P' NMT enter pre-operational, 'Z' NMT stop, 'N' NMT start: a reception
 *              still waiting for its SYNC when OPERATIONAL is left is discarded (PDO
 *              communication starts afresh with every OPERATIONAL phase)               */
#define OD_SYNC
#define OD_RPDO 2
#define OD_DUMMY
#include "od.h"
#ifndef MAP
#define MAP {0x21000008}
#define MAPN 1
#endif
#ifndef CH
#define CH 0
#endif
#ifndef TYPE0
#define TYPE0 254
#endif
#ifndef TYPE1
#define TYPE1 255
#endif
#ifndef MODE
#define MODE 3
#endif
#ifndef SEQ
#define SEQ "R"
#endif

static const uint32_t map[] = MAP;
static uint8_t  mb, mab; static uint16_t mw, maw; static uint32_t ml, mal;   /* model of the mapped objects */

static void model_apply(const uint8_t *d)
{
    uint32_t k, pos = 0;
    for (k = 0; k < MAPN; k++) {
        uint16_t idx = (uint16_t)(map[k] >> 16);
        uint8_t  n   = (uint8_t)((map[k] & 0xFF) >> 3);
        uint32_t v   = 0, j;
        for (j = 0; j < n; j++) { v |= (uint32_t)d[(pos + j) & 7] << (8 * j); }
        if      (idx == 0x2100) { mb  = (uint8_t)v; }
        else if (idx == 0x2101) { mw  = (uint16_t)v; }
        else if (idx == 0x2102) { ml  = v; }
        else if (idx == 0x2103) { mab = (uint8_t)v; }
        else if (idx == 0x2104) { maw = (uint16_t)v; }
        else if (idx == 0x2105) { mal = v; }
        pos += n;
    }
}
static void check_objs(void)
{
    CHECK(app.b == mb && app.w == mw && app.l == ml && app.ab == mab && app.aw == maw && app.al == mal,
          "mapped objects hold exactly the payload fields, everything else unchanged");
    CHECK(app.g0 == 0 && app.g1 == 0 && app.g2 == 0 && app.g3 == 0 && app.g4 == 0 && app.g5 == 0 && app.g6 == 0, "guard words untouched");
    CHECK(env_fatal == 0, "no fatal error");
}

void harness(void)
{
    static const char seq[] = SEQ;
    uint32_t s, k, total = 0;
    uint8_t  d[8], pend[8];
    uint8_t  have_pend = 0;
    uint8_t  opend[8], have_opend = 0;
    uint8_t  osync = ((CH == 0) ? TYPE1 : TYPE0) <= 240;
    uint8_t  dlc;
    uint8_t  sync_ch = ((CH == 0) ? TYPE0 : TYPE1) <= 240;
    uint8_t  mode = MODE;
    uint32_t id = (CH == 0) ? 0x200 + OD_NODEID : 0x300 + OD_NODEID;

    env_reset();
    od_defaults();
    for (k = 0; k < MAPN; k++) { total += (map[k] & 0xFF) >> 3; }
    V1400_1(0) = (TYPE0 == 255) ? 0x80000200u : 0x200; V1400_2(0) = (TYPE0 == 255) ? 254 : TYPE0;
    V1400_1(1) = (TYPE1 == 255) ? 0x80000300u : 0x300; V1400_2(1) = (TYPE1 == 255) ? 254 : TYPE1;
    V1600_0(0) = 0; V1600_0(1) = 0;
    V1600_0(CH) = MAPN;
    for (k = 0; k < MAPN; k++) { V1600(CH, k) = map[k]; }
#ifdef OTHER
    /* the other channel maps 2105h (32 bit): op 'r' sends it a frame */
    V1600_0(1 - CH) = 1; V1600(1 - CH, 0) = 0x21050020u;
#endif
    app.b = ND_U8(); app.w = ND_U16(); app.l = ND_U32(); app.ab = ND_U8(); app.aw = ND_U16(); app.al = ND_U32();
    node_boot();
#if MODE == 3
    CONmtSetMode(&node.Nmt, CO_OPERATIONAL);
#elif MODE == 4
    CONmtSetMode(&node.Nmt, CO_STOP);
#endif
    CHECK(node.Error == CO_ERR_NONE, "configuration accepted");
    mb = app.b; mw = app.w; ml = app.l; mab = app.ab; maw = app.aw; mal = app.al;

    for (s = 0; s + 1 < sizeof(seq); s++) {
        char o = seq[s];
        env_tx_n = 0;
        if ((o == 'R') || (o == 'F')) {
            ND_BUF(d, 8);
            dlc = (uint8_t)ND_RANGE(0, 8);
            ASSUME(dlc >= total);                      /* shorter frames: not constrained (DESIGN.md appendix B) */
            env_deliver(&node, (o == 'R') ? id : (id + 1), dlc, d);
            if ((o == 'R') && (mode == 3)) {
                if (sync_ch) { for (k = 0; k < 8; k++) { pend[k] = d[k]; } have_pend = 1; }
                else         { model_apply(d); }
            }
        } else if (o == 'r') {
            /* frame for the other channel (4 bytes into 2105h) */
            ND_BUF(d, 8);
            env_deliver(&node, (CH == 0) ? 0x300 + OD_NODEID : 0x200 + OD_NODEID, 8, d);
            if (mode == 3) {
                if (osync) { for (k = 0; k < 8; k++) { opend[k] = d[k]; } have_opend = 1; }
                else       { mal = (uint32_t)d[0] | ((uint32_t)d[1] << 8) | ((uint32_t)d[2] << 16) | ((uint32_t)d[3] << 24); }
            }
        } else if (o == 'S') {
            for (k = 0; k < 8; k++) { d[k] = 0; }
            env_deliver(&node, 0x80, 0, d);
            if ((mode == 3) && have_pend) { model_apply(pend); have_pend = 0; }
            if ((mode == 3) && have_opend) { mal = (uint32_t)opend[0] | ((uint32_t)opend[1] << 8) | ((uint32_t)opend[2] << 16) | ((uint32_t)opend[3] << 24); have_opend = 0; }
        } else if ((o == 'P') || (o == 'Z') || (o == 'N')) {
            for (k = 0; k < 8; k++) { d[k] = 0; }
            d[0] = (o == 'P') ? 128 : (o == 'Z') ? 2 : 1; d[1] = OD_NODEID;
            env_deliver(&node, 0x000, 2, d);
            mode = (o == 'P') ? 2 : (o == 'Z') ? 4 : 3;
            if (mode != 3) { have_pend = 0; have_opend = 0; }
        } else if (o == 'L') {
            app.b = ND_U8(); app.w = ND_U16(); app.l = ND_U32();
            mb = app.b; mw = app.w; ml = app.l;
        }
        check_objs();
        CHECK(env_tx_n == 0, "RPDO / SYNC reception transmits nothing");
    }
    COVER(app.b != 0 || app.w != 0 || app.l != 0, "non-zero contents at the end");
    COVER(1, "end");
}
