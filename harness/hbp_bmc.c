/* C10 (and C16 producer part) hbp_bmc: a sequence of operations on a whole
 * node with heartbeat producer, one event-driven TPDO with event/inhibit
 * timers and an application timer; kinds of operations concrete (OPSEQ,
 * enumerated by the driver), data symbolic.  After every tick the frames on
 * 700h+id are compared with a reference schedule that only knows 1017h.
 *   op  'T' tick (service + process)          'W' SDO write 1017h  (0..3 ms)
 *       'A' API write 1017h                   'N' NMT start   'S' NMT stop
 *       'P' NMT enter pre-operational         'R' NMT reset communication
 *       'E' SDO write TPDO event time 1800h:5 'I' SDO write inhibit time 1800h:3
 *       'G' TPDO trigger                      'C' create application timer
 *       'D' delete application timer          'Y' SDO write 1006h (SYNC period)
 *       'X' SDO write 1005h (producer on/off) */
#define OD_SYNC
#define OD_TPDO 1
#include "od.h"
#ifndef OPSEQ
#define OPSEQ "TTT"
#endif
#ifndef HB0
#define HB0 2           /* initial 1017h in ms (OD_FREQ 1000: 1 ms = 1 tick) */
#endif

static uint32_t now;                 /* ticks since start                    */
static uint8_t  hb_on;  static uint32_t hb_next, hb_per;
static uint8_t  sy_on;  static uint32_t sy_next, sy_per;     /* SYNC producer model */
static int16_t  app_tmr = -1;
static uint32_t app_fired;
static void app_cb(void *p) { (void)p; app_fired++; }

static void sdo_wr(uint16_t idx, uint8_t sub, uint8_t w, uint32_t v)
{
    uint8_t d[8];
    d[0] = (uint8_t)(0x23 | ((4 - w) << 2)); d[1] = (uint8_t)idx; d[2] = (uint8_t)(idx >> 8); d[3] = sub;
    d[4] = (uint8_t)v; d[5] = (uint8_t)(v >> 8); d[6] = (uint8_t)(v >> 16); d[7] = (uint8_t)(v >> 24);
    env_deliver(&node, 0x600 + OD_NODEID, 8, d);
}
static void nmt(uint8_t cs)
{
    uint8_t d[8] = { 0, 0, 0, 0, 0, 0, 0, 0 };
    d[0] = cs; d[1] = OD_NODEID;
    env_deliver(&node, 0x000, 2, d);
}
static uint8_t state_code(void)
{
    CO_MODE m = CONmtGetMode(&node.Nmt);
    return (m == CO_PREOP) ? 127 : (m == CO_OPERATIONAL) ? 5 : (m == CO_STOP) ? 4 : 0;
}
/* count frames with identifier id among the frames of this step and check their content */
static uint32_t count_id(uint32_t id)
{
    uint32_t i, n = 0;
    for (i = 0; i < ENV_TX_MAX; i++) { if ((i < env_tx_n) && (env_tx[i].Identifier == id)) { n++; } }
    return n;
}
#ifdef VALS
static const uint32_t vals[] = VALS;   /* written times per step, enumerated by the driver: symbolic times make every
                                         * timer-list shape symbolic and cbmc does not finish within the budget */
#define VAL(lo, hi) (vals[s])
#else
#define VAL(lo, hi) ND_RANGE((lo), (hi))
#endif
static void hb_restart(uint32_t v) { hb_on = (v > 0); hb_per = v; hb_next = now + v; }
/* the period "counted in timer ticks": ticks until the heartbeat action is due and its reload value, read from the
 * timer lists (lets periods far beyond the number of ticks a harness can run be checked: 70 ms at 1 MHz = 70000 ticks) */
static void check_hb_ticks(uint32_t ms)
{
    CO_TMR        *t = &node.Tmr;
    CO_TMR_TIME   *e;
    CO_TMR_ACTION *a;
    uint32_t acc = env_tmr_counter, i, j, found = 0, due = 0, cyc = 0;
    uint32_t want = ms * (OD_FREQ / 1000u);
    if (ms == 0) { CHECK(node.Nmt.Tmr < 0, "heartbeat time zero: no heartbeat action"); return; }
    CHECK(node.Nmt.Tmr >= 0, "heartbeat action exists while 1017h is non-zero");
    for (e = t->Use, i = 0; (e != 0) && (i <= OD_TMR_N); e = e->Next, i++) {
        if (i > 0) { acc += e->Delta; }
        for (a = e->Action, j = 0; (a != 0) && (j <= OD_TMR_N); a = a->Next, j++) {
            if ((int16_t)a->Id == node.Nmt.Tmr) { found++; due = acc; cyc = a->CycleTicks; }
        }
    }
    CHECK(found == 1, "heartbeat action pending exactly once");
    CHECK(due == want && cyc == want, "heartbeat period in timer ticks = time x frequency, restarted by the write");
}

void harness(void)
{
    static const char ops[] = OPSEQ;
    uint32_t s, i;
    uint8_t  booted_id = 0x05;

    env_reset();
    od_defaults();
    v1017 = HB0;
    V1800_1(0) = 0x40000180; V1800_2(0) = 254; V1A00_0(0) = 1; V1A00(0, 0) = CO_LINK(0x2103, 0, 8);
    V1800_3(0) = 0; V1800_5(0) = 0;
    v1005 = 0x80; v1006 = 0;
    node_boot();
    CHECK(node.Error == CO_ERR_NONE, "configuration accepted");
    hb_restart(HB0);
    (void)booted_id;

    for (s = 0; s + 1 < sizeof(ops); s++) {
        char o = ops[s];
        uint32_t hb_exp = 0, sy_exp = 0;
        uint8_t  sync_allowed;
        env_tx_n = 0;
        if (o == 'T') {
            now++;
            env_tick(&node);
            if (hb_on && (now == hb_next)) { hb_exp = 1; hb_next += hb_per; }
            sync_allowed = (CONmtGetMode(&node.Nmt) == CO_PREOP) || (CONmtGetMode(&node.Nmt) == CO_OPERATIONAL);
            if (sy_on && (now == sy_next)) { sy_exp = sync_allowed ? 1 : 0; sy_next += sy_per; }
        } else if (o == 'W') {
            uint32_t v = VAL(0, 3);
            sdo_wr(0x1017, 0, 2, v);
            CHECK(count_id(0x580 + OD_NODEID) == 1 && env_tx[0].Data[0] == 0x60, "write to 1017h accepted");
            hb_restart(v);
            check_hb_ticks(v);
        } else if (o == 'A') {
            uint32_t v = VAL(0, 3);
            CO_ERR e = CODictWrWord(&node.Dict, CO_DEV(0x1017, 0), (uint16_t)v);
            CHECK(e == CO_ERR_NONE, "API write to 1017h accepted");
            hb_restart(v);
            check_hb_ticks(v);
        } else if (o == 'N') { nmt(1);
        } else if (o == 'S') { nmt(2);
        } else if (o == 'P') { nmt(128);
        } else if (o == 'R') {
            nmt(130);
            CHECK(count_id(0x700 + OD_NODEID) == 1 && env_tx[0].Data[0] == 0, "boot-up after reset communication");
            env_tx_n = 0;
            hb_restart(v1017);
            sy_on = ((v1005 & 0x40000000u) != 0) && (v1006 >= 1000); sy_per = v1006 / 1000; sy_next = now + sy_per;
        } else if (o == 'E') { sdo_wr(0x1800, 5, 2, VAL(0, 3));
        } else if (o == 'I') { sdo_wr(0x1800, 3, 2, VAL(0, 3) * 10u);
        } else if (o == 'G') { COTPdoTrigPdo(node.TPdo, 0);
        } else if (o == 'C') {
            if (app_tmr < 0) { app_tmr = COTmrCreate(&node.Tmr, VAL(1, 3) + ((VAL(1, 3) == 0) ? 1u : 0u), 0, app_cb, 0); }
        } else if (o == 'D') {
            if (app_tmr >= 0) { (void)COTmrDelete(&node.Tmr, app_tmr); app_tmr = -1; }
        } else if (o == 'Y') {
            uint32_t v = VAL(0, 3) * 1000u;
            sdo_wr(0x1006, 0, 4, v);
            if (env_tx[0].Data[0] == 0x60) { if (sy_on || ((v1005 & 0x40000000u) != 0)) { sy_on = (v >= 1000); sy_per = v / 1000; sy_next = now + sy_per; } }
        } else if (o == 'X') {
            uint32_t on = VAL(0, 1) & 1;
            sdo_wr(0x1005, 0, 4, 0x80u | (on ? 0x40000000u : 0));
            if (env_tx[0].Data[0] == 0x60) { sy_on = on && (v1006 >= 1000); sy_per = v1006 / 1000; sy_next = now + sy_per; }
        }
        /* ---- the heartbeat schedule is exact whatever else happens ---- */
        if (o != 'R') {
            CHECK(count_id(0x700 + OD_NODEID) == hb_exp, "heartbeat transmitted exactly when its period elapses");
            for (i = 0; i < ENV_TX_MAX; i++) {
                if ((i < env_tx_n) && (env_tx[i].Identifier == 0x700 + OD_NODEID)) {
                    CHECK(env_tx[i].DLC == 1 && env_tx[i].Data[0] == state_code(), "heartbeat carries the current NMT state");
                }
            }
#ifdef CHECK_SYNC
            CHECK(count_id(0x80) == sy_exp, "SYNC produced exactly every communication cycle period");
            for (i = 0; i < ENV_TX_MAX; i++) {
                if ((i < env_tx_n) && (env_tx[i].Identifier == 0x80)) { CHECK(env_tx[i].DLC == 0, "SYNC has no data"); }
            }
#endif
        }
        CHECK(env_fatal == 0, "no fatal error");
        (void)sy_exp;
    }
    COVER(hb_on && now >= 2, "heartbeat running at the end");
    COVER(1, "end");
}
