/* C20 reset_equiv: [history H; NMT reset (communication or node); probes P]
 * against [fresh CONodeInit + CONodeStart holding the post-H dictionary
 * values; the same probes P] on the real code.  Only OBSERVABLE behaviour is
 * compared: frames (identifier, dlc, data) per probe step, callback counts,
 * API results, timer pool occupancy.  Operation kinds concrete (HSEQ / PSEQ,
 * enumerated by the driver), times concrete (VALS, see hbp_bmc.c for why),
 * payloads / object values / heartbeat states symbolic.
 *
 *  history ops                                    probe ops
 *   'N' NMT start  'S' stop  'T' tick              'T' tick   'N' NMT start  'S' NMT stop
 *   'W' SDO write 1017h := v                       'G' TPDO trigger
 *   'X' SDO write 1006h := v ms, 1005h producer on 'u' SDO upload 1017h      'v' SDO upload 1005h
 *   'x' SDO write 1005h := 81h (consumer id)       'd' SDO download segment  'q' SDO upload segment
 *   'E' SDO write 1800h:5 := v   'I' 1800h:3 := v  'Y' SYNC (id of 1005h)    'y' frame on 080h
 *   'G' TPDO trigger                               'h' heartbeat of node 22h 'g' CONmtGetHbEvents(22h)
 *   'k' SDO write 1016h:1 := (22h, v ms)           'l' LSS inquire node id   'm' EMCY set error 0
 *   'h' heartbeat of node 22h (state symbolic)     'c' SDO client request    'r' SDO server answer to the client
 *   'a' open segmented SDO download (domain)       'e' COEmcyCnt / 1001h / 1003h:0
 *   'b' open SDO block upload (domain)             'w' SDO block-upload start (A3h)
 *   'c' SDO client upload request (stays busy)
 *  several frames of one step are compared as a multiset; the error history 1003h is not compared
 *   't' tick interrupt only (service without process)   'J' LSS configure node id
 *   'L' LSS switch to configuration state          'A' LSS activate bit timing (v ms) after configure
 *   'M' EMCY set error 0   'C' application timer (cyclic, v ticks)
 *  RST 130 reset communication / 129 reset node                               */
#define OD_SYNC
#define OD_TPDO 1
#define OD_HBC
#define OD_HBC_E 2
#define OD_CSDO
#define OD_EMCY
#include "od.h"
#ifndef HSEQ
#define HSEQ "W"
#endif
#ifndef PSEQ
#define PSEQ "TT"
#endif
#ifndef VALS
#define VALS {2,2,2,2,2,2,2,2}
#endif
#ifndef RST
#define RST 130
#endif
#ifndef HB0
#define HB0 0
#endif
#define PMAX 8            /* probe steps */
#define FMAX 3            /* frames per probe step */

static const uint32_t vals[] = VALS;

typedef struct {
    uint32_t ntx;  uint32_t id[FMAX]; uint8_t dlc[FMAX]; uint8_t dat[FMAX][8];
    uint32_t hbev, hbchg, cbn, cbcode, canrcv, pdotx, modechg;
    uint32_t api;
    uint8_t  mode;
} OBS;
static OBS obs[2][PMAX];

static uint32_t cb_n, cb_code;
static void cb(CO_CSDO *c, uint16_t idx, uint8_t sub, uint32_t code) { (void)c; (void)idx; (void)sub; cb_n++; cb_code = code; }
static uint32_t app_fired;
static void app_cb(void *p) { (void)p; app_fired++; }
static uint8_t cbuf[4];

static uint32_t free_actions(void)
{
    CO_TMR_ACTION *a = node.Tmr.Acts; uint32_t n = 0, i;
    for (i = 0; (a != 0) && (i <= OD_TMR_N); i++) { n++; a = a->Next; }
    return n;
}
static void frame(uint32_t id, uint8_t dlc, uint8_t b0, uint8_t b1, uint8_t b2, uint8_t b3, uint32_t v)
{
    uint8_t d[8];
    d[0] = b0; d[1] = b1; d[2] = b2; d[3] = b3;
    d[4] = (uint8_t)v; d[5] = (uint8_t)(v >> 8); d[6] = (uint8_t)(v >> 16); d[7] = (uint8_t)(v >> 24);
    env_deliver(&node, id, dlc, d);
}
static void sdo(uint8_t cmd, uint16_t idx, uint8_t sub, uint32_t v) { frame(0x600 + OD_NODEID, 8, cmd, (uint8_t)idx, (uint8_t)(idx >> 8), sub, v); }
static void sdo_wr(uint16_t idx, uint8_t sub, uint8_t w, uint32_t v) { sdo((uint8_t)(0x23 | ((4 - w) << 2)), idx, sub, v); }
static void nmt(uint8_t cs) { frame(0x000, 2, cs, OD_NODEID, 0, 0, 0); }

/* symbolic data shared by both runs (drawn once) */
static uint8_t  hb_state, seg_pay, ab_val;
static uint32_t srv_data;

static void probe(int run, uint32_t k, char o)
{
    OBS *r = &obs[run][k];
    uint32_t i, j;
    uint32_t hbev0 = env_hbevent_n, hbchg0 = env_hbchange_n, cb0 = cb_n, rcv0 = env_canrcv_n, ptx0 = env_pdotx_n, mc0 = env_modechg_n;
    env_tx_n = 0;
    r->api = 0;
    if      (o == 'T') { env_tick(&node); }
    else if (o == 'N') { nmt(1); }
    else if (o == 'S') { nmt(2); }
    else if (o == 'G') { COTPdoTrigPdo(node.TPdo, 0); }
    else if (o == 'u') { sdo(0x40, 0x1017, 0, 0); }
    else if (o == 'v') { sdo(0x40, 0x1005, 0, 0); }
    else if (o == 'd') { frame(0x600 + OD_NODEID, 8, 0x00, seg_pay, seg_pay, seg_pay, 0x01010101u * seg_pay); }
    else if (o == 'q') { frame(0x600 + OD_NODEID, 8, 0x60, 0, 0, 0, 0); }
    else if (o == 'w') { frame(0x600 + OD_NODEID, 8, 0xA3, 0, 0, 0, 0); }
    else if (o == 'Y') { frame(v1005 & 0x7FF, 0, 0, 0, 0, 0, 0); }
    else if (o == 'y') { frame(0x080, 0, 0, 0, 0, 0, 0); }
    else if (o == 'h') { frame(0x700 + 0x22, 1, hb_state, 0, 0, 0, 0); }
    else if (o == 'g') { r->api = (uint32_t)CONmtGetHbEvents(&node.Nmt, 0x22); }
    else if (o == 'l') { frame(0x7E5, 8, 0x5E, 0, 0, 0, 0); }
    else if (o == 's') { uint32_t n0 = env_lssstore_n; frame(0x7E5, 8, 0x04, 0x01, 0, 0, 0); env_tx_n = 0; frame(0x7E5, 8, 0x17, 0, 0, 0, 0);
                         r->api = ((env_lssstore_n - n0) << 24) | ((uint32_t)env_lssstore_node << 16) | (env_lssstore_baud & 0xFFFF); }   /* LSS: configuration state, store configuration */
    else if (o == 'm') { COEmcySet(&node.Emcy, 0, 0); }
    else if (o == 'e') { r->api = (uint32_t)COEmcyCnt(&node.Emcy) | ((uint32_t)v1001 << 8); }   /* 1003h (history) is dictionary content, not compared */
    else if (o == 'c') { CO_CSDO *c = COCSdoFind(&node, 0); r->api = (c == 0) ? 0xFFu : (uint32_t)COCSdoRequestUpload(c, CO_DEV(0x2345, 6), cbuf, 4, cb, 5); }
    else if (o == 'r') { frame(0x580 + 9, 8, 0x43, 0x45, 0x23, 6, srv_data); }
    r->ntx = env_tx_n;
    /* frames of one step are compared as a multiset (the order in which several actions due on the same tick run is not
     * part of the property): stable sort by identifier */
    {
        uint8_t ord[FMAX], t;
        for (i = 0; i < FMAX; i++) { ord[i] = (uint8_t)i; }
#define KEYOF(x) (((x) < env_tx_n) ? env_tx[(x)].Identifier : 0xFFFFFFFFu)
        if (KEYOF(ord[0]) > KEYOF(ord[1])) { t = ord[0]; ord[0] = ord[1]; ord[1] = t; }
        if (KEYOF(ord[1]) > KEYOF(ord[2])) { t = ord[1]; ord[1] = ord[2]; ord[2] = t; }
        if (KEYOF(ord[0]) > KEYOF(ord[1])) { t = ord[0]; ord[0] = ord[1]; ord[1] = t; }
        for (i = 0; i < FMAX; i++) {
            uint32_t x = ord[i];
            r->id[i] = (x < env_tx_n) ? env_tx[x].Identifier : 0;
            r->dlc[i] = (x < env_tx_n) ? env_tx[x].DLC : 0;
            for (j = 0; j < 8; j++) { r->dat[i][j] = ((x < env_tx_n) && (j < env_tx[x].DLC)) ? env_tx[x].Data[j] : 0; }
        }
    }
    r->hbev = env_hbevent_n - hbev0; r->hbchg = env_hbchange_n - hbchg0; r->cbn = cb_n - cb0; r->cbcode = (cb_n != cb0) ? cb_code : 0;
    r->canrcv = env_canrcv_n - rcv0; r->pdotx = env_pdotx_n - ptx0; r->modechg = env_modechg_n - mc0;
    r->mode = (uint8_t)CONmtGetMode(&node.Nmt);
}

void harness(void)
{
    static const char hs[] = HSEQ;
    static const char ps[] = PSEQ;
    static const CO_NODE zero_node;
    uint32_t s, k, i;
    int16_t  app_tmr = -1;
    uint32_t app_per = 0, app_next = 0, app_live = 0, freeA, freeB;
    uint16_t s1017; uint32_t s1005, s1006, s1016a_t, s1800_1, s1014, s1200_1; uint8_t s1016a_n, s1800_2; uint16_t s1800_3, s1800_5;
    uint8_t  appval;

    env_reset();
    od_defaults();
    v1017 = HB0;
    V1800_1(0) = 0x40000180; V1800_2(0) = 254; V1A00_0(0) = 1; V1A00(0, 0) = CO_LINK(0x2103, 0, 8);
    od_emcy_tbl[0].Reg = 1; od_emcy_tbl[0].Code = 0x1000;
    od_emcy_tbl[1].Reg = 2; od_emcy_tbl[1].Code = 0x2000;
    hb_state = ND_U8(); seg_pay = ND_U8(); ab_val = ND_U8(); srv_data = ND_U32(); appval = ND_U8();
    ASSUME(hb_state == 4 || hb_state == 5 || hb_state == 127);
    app.ab = appval;
    node_boot();
    CHECK(node.Error == CO_ERR_NONE, "configuration accepted");

    /* ---------------------------------------------------------------- history */
    for (s = 0; s + 1 < sizeof(hs); s++) {
        char o = hs[s];
        uint32_t v = vals[s];
        env_tx_n = 0;
        if      (o == 'T') { env_tick(&node); }
        else if (o == 't') { (void)COTmrService(&node.Tmr); }          /* tick interrupt served, processing still outstanding */
        else if (o == 'J') { frame(0x7E5, 8, 0x11, 0x20, 0, 0, 0); }    /* LSS configure node id 20h (in configuration state) */
        else if (o == 'N') { nmt(1); }
        else if (o == 'S') { nmt(2); }
        else if (o == 'W') { sdo_wr(0x1017, 0, 2, v); }
        else if (o == 'X') { sdo_wr(0x1006, 0, 4, v * 1000u); env_tx_n = 0; sdo_wr(0x1005, 0, 4, 0x40000080u); }
        else if (o == 'x') { sdo_wr(0x1005, 0, 4, 0x81u); }
        else if (o == 'E') { sdo_wr(0x1800, 5, 2, v); }
        else if (o == 'I') { sdo_wr(0x1800, 3, 2, v * 10u); }
        else if (o == 'G') { COTPdoTrigPdo(node.TPdo, 0); }
        else if (o == 'k') { sdo_wr(0x1016, 1, 4, (0x22u << 16) | v); }
        else if (o == 'h') { frame(0x700 + 0x22, 1, 5, 0, 0, 0, 0); }
        else if (o == 'a') { sdo(0x21, 0x2110, 0, 9); }
        else if (o == 'b') { sdo(0xA0, 0x2110, 0, 2); }
        else if (o == 'c') { CO_CSDO *c = COCSdoFind(&node, 0); if (c != 0) { (void)COCSdoRequestUpload(c, CO_DEV(0x2345, 6), cbuf, 4, cb, 3); } }
        else if (o == 'L') { frame(0x7E5, 8, 0x04, 0x01, 0, 0, 0); }
        else if (o == 'A') { frame(0x7E5, 8, 0x13, 0x00, 0x04, 0, 0); env_tx_n = 0; frame(0x7E5, 8, 0x15, (uint8_t)v, 0, 0, 0); }
        else if (o == 'M') { COEmcySet(&node.Emcy, 0, 0); }
        else if (o == 'C') { if (app_tmr < 0) { app_tmr = COTmrCreate(&node.Tmr, v, v, app_cb, 0); app_per = v; app_next = v; app_live = (app_tmr >= 0); } }
        if ((o == 'T') && app_live) { app_next--; if (app_next == 0) { app_next = app_per; } }
        CHECK(env_fatal == 0, "no fatal error");
    }
    /* the post-history dictionary values */
    s1017 = v1017; s1005 = v1005; s1006 = v1006; s1016a_t = V1016(0).Time; s1016a_n = V1016(0).NodeId;
    s1800_1 = V1800_1(0); s1800_2 = V1800_2(0); s1800_3 = V1800_3(0); s1800_5 = V1800_5(0); s1014 = v1014; s1200_1 = v1200_1;
    (void)s1200_1;

    /* ---------------------------------------------------------------- run A: reset, probes */
    env_tx_n = 0;
#ifdef RSTAPI
    CONmtReset(&node.Nmt, (RST == 129) ? CO_RESET_NODE : CO_RESET_COM);
    if (env_tx_n == 0) { CONodeStart(&node); }      /* reset from INIT sends no boot-up itself (nobootup) */
#else
    { uint32_t rq0 = env_resetreq_n;
      nmt(RST);
      CHECK(env_resetreq_n == rq0 + 1, "reset request signalled to the application");
    }
#endif
    CHECK(env_tx_n == 1 && env_tx[0].Identifier == 0x700 + OD_NODEID && env_tx[0].DLC == 1 && env_tx[0].Data[0] == 0, "exactly one boot-up frame after the reset");
    CHECK(CONmtGetMode(&node.Nmt) == CO_PREOP, "pre-operational after the reset");
    CHECK(v1017 == s1017 && v1005 == s1005 && v1006 == s1006 && V1016(0).Time == s1016a_t && V1016(0).NodeId == s1016a_n &&
          V1800_1(0) == s1800_1 && V1800_2(0) == s1800_2 && V1800_3(0) == s1800_3 && V1800_5(0) == s1800_5 && v1014 == s1014,
          "reset keeps the communication parameters held in RAM");
    {
        uint32_t fired0;
        for (k = 0; k + 1 < sizeof(ps); k++) {
            fired0 = app_fired;
            probe(0, k, ps[k]);
            /* application timers keep running across the reset */
            if (ps[k] == 'T') {
                uint32_t due = 0;
                if (app_live) { app_next--; if (app_next == 0) { due = 1; app_next = app_per; } }
                CHECK(app_fired - fired0 == due, "application timer keeps its schedule across the reset");
            } else {
                CHECK(app_fired == fired0, "application timer fires on ticks only");
            }
            CHECK(env_fatal == 0, "no fatal error");
        }
    }
    freeA = free_actions();

    /* ---------------------------------------------------------------- run B: fresh node, same dictionary values */
    {
        uint8_t ab_now = app.ab;
        node = zero_node;
        env_reset();
        cb_n = 0; cb_code = 0;
        od_defaults();
        v1017 = s1017; v1005 = s1005; v1006 = s1006; V1016(0).Time = (uint16_t)s1016a_t; V1016(0).NodeId = s1016a_n;
        V1016(0).Tmr = -1; V1016(0).Event = 0; V1016(0).State = CO_INVALID; V1016(0).Next = 0; V1016(0).Node = 0;
        V1016(1).Tmr = -1; V1016(1).Event = 0; V1016(1).State = CO_INVALID; V1016(1).Next = 0; V1016(1).Node = 0; V1016(1).Time = 0; V1016(1).NodeId = 0;
        V1800_1(0) = s1800_1; V1800_2(0) = s1800_2; V1800_3(0) = s1800_3; V1800_5(0) = s1800_5; v1014 = s1014;
        V1A00_0(0) = 1; V1A00(0, 0) = CO_LINK(0x2103, 0, 8);
        od_dom.Offset = 0; od_str.Offset = 0;
        app.ab = ab_now;
        node_init();
        CHECK(node.Error == CO_ERR_NONE, "post-history configuration accepted by a fresh node");
        env_tx_n = 0;
        CONodeStart(&node);
        CHECK(env_tx_n == 1 && env_tx[0].Identifier == 0x700 + OD_NODEID, "fresh node boots");
        for (k = 0; k + 1 < sizeof(ps); k++) {
            probe(1, k, ps[k]);
        }
        freeB = free_actions();
    }

    /* ---------------------------------------------------------------- compare */
    for (k = 0; k + 1 < sizeof(ps); k++) {
        const OBS *a = &obs[0][k], *b = &obs[1][k];
        DBG("probe %u '%c': A ntx=%u [%x/%u:%02x %x/%u:%02x %x/%u:%02x] api=%x cb=%u/%x hb=%u/%u mode=%u | B ntx=%u [%x/%u:%02x %x/%u:%02x %x/%u:%02x] api=%x cb=%u/%x hb=%u/%u mode=%u\n", (unsigned)k, ps[k],
            (unsigned)a->ntx, (unsigned)a->id[0], a->dlc[0], a->dat[0][0], (unsigned)a->id[1], a->dlc[1], a->dat[1][0], (unsigned)a->id[2], a->dlc[2], a->dat[2][0], (unsigned)a->api, (unsigned)a->cbn, (unsigned)a->cbcode, (unsigned)a->hbev, (unsigned)a->hbchg, a->mode,
            (unsigned)b->ntx, (unsigned)b->id[0], b->dlc[0], b->dat[0][0], (unsigned)b->id[1], b->dlc[1], b->dat[1][0], (unsigned)b->id[2], b->dlc[2], b->dat[2][0], (unsigned)b->api, (unsigned)b->cbn, (unsigned)b->cbcode, (unsigned)b->hbev, (unsigned)b->hbchg, b->mode);
        CHECK(a->ntx == b->ntx, "after the reset the node sends as many frames per step as the fresh node");
        for (i = 0; i < FMAX; i++) {
            uint32_t j;
            CHECK(a->id[i] == b->id[i] && a->dlc[i] == b->dlc[i], "frames after the reset have the identifier and length of the fresh node's");
            for (j = 0; j < 8; j++) { CHECK(a->dat[i][j] == b->dat[i][j], "frames after the reset carry the data of the fresh node's"); }
        }
        CHECK(a->hbev == b->hbev && a->hbchg == b->hbchg, "heartbeat consumer callbacks as on the fresh node");
        CHECK(a->cbn == b->cbn && a->cbcode == b->cbcode, "SDO client callbacks as on the fresh node");
        CHECK(a->canrcv == b->canrcv && a->pdotx == b->pdotx && a->modechg == b->modechg, "application callbacks as on the fresh node");
        CHECK(a->api == b->api, "API results as on the fresh node");
        CHECK(a->mode == b->mode, "NMT mode as on the fresh node");
    }
    CHECK(freeA + app_live == freeB, "timer pool occupancy = fresh node + live application timers");
    COVER(obs[1][0].ntx > 0 || obs[1][1].ntx > 0, "probes produce frames");
    COVER(app_live != 0, "application timer alive");
    COVER(1, "end");
}
