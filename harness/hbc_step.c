/* C11 hbc_step: one heartbeat-consumer operation from an arbitrary consumer
 * table.  E = OD_HBC_E entries; SHAPE enumerates which entries are active
 * and in which order they are chained (digit string of entry numbers, 0 =
 * none); node ids, times, event counters, last states symbolic; for every
 * active entry monitoring may already be running (symbolic) - started through
 * the real code by a heartbeat.
 *   OP 0 SDO write of (node, time) to entry WK (1..E)       1 heartbeat frame
 *      2 monitor time elapses (ticks)   3 CONmtGetHbEvents   4 CONmtLastHbState */
#define OD_HBC
#include "od.h"
#ifndef OP
#define OP 0
#endif
#ifndef WK
#define WK 1
#endif
#ifndef SHAPE
#define SHAPE {0}
#define SHAPEN 0
#endif
#define E OD_HBC_E
#ifndef NODE_BASE
#define NODE_BASE 11      /* node id of entry 1; entry i monitors NODE_BASE + i - 1 (boundary instances: 1.., ..127) */
#endif

typedef struct { uint8_t act; uint8_t node; uint16_t time; uint8_t ev; CO_MODE st; uint8_t run; } MH;   /* no pointers inside: safe as array */
static MH m[E];

static void snapshot_and_check_others(int except, const char *unused)
{
    (void)unused; (void)except;
}

/* reference decoding of the heartbeat state byte (CiA 301): 0 boot-up, 4 stopped, 5 operational, 127 pre-operational */
static CO_MODE ref_decode(uint8_t b) { return (b == 0) ? CO_INIT : (b == 4) ? CO_STOP : (b == 5) ? CO_OPERATIONAL : (b == 127) ? CO_PREOP : CO_INVALID; }

static void check_chain(void)
{
    CO_HBCONS *h = node.Nmt.HbCons;
    uint8_t seen[E];
    uint32_t i, n = 0;
    for (i = 0; i < E; i++) { seen[i] = 0; }
    for (i = 0; (h != 0) && (i <= E); i++) {
        uint32_t k;
        uint8_t hit = 0;
        for (k = 0; k < E; k++) { if (h == v1016p[k]) { CHECK(seen[k] == 0, "consumer chain holds every entry at most once"); seen[k] = 1; hit = 1; } }
        CHECK(hit, "consumer chain holds consumer entries only");
        h = h->Next; n++;
    }
    CHECK(h == 0, "consumer chain is finite (acyclic)");
    for (i = 0; i < E; i++) {
        CHECK(seen[i] == (V1016(i).Time > 0), "chain = set of entries with a non-zero time");
    }
    (void)n;
}

void harness(void)
{
    static const uint8_t shape[] = SHAPE;
    uint32_t i, j;
    uint8_t  d[8];
    CO_IF_FRM frm;

    env_reset();
    od_defaults();
    for (i = 0; i < E; i++) { V1016(i).Time = 0; V1016(i).NodeId = 0; }
    node_boot();
    CHECK(node.Error == CO_ERR_NONE && node.Nmt.HbCons == 0, "no consumer active after start with empty 1016h");

    /* ---- arbitrary table of the given shape, built through the real API ---- */
    /* node ids and times of the entries concrete (ids are only compared for equality and the
     * written / received node id below is symbolic; symbolic ids made the chain shape symbolic
     * and cbmc did not finish), event counters and states symbolic */
    for (i = 0; i < E; i++) { m[i].act = 0; m[i].node = (uint8_t)(NODE_BASE + i); m[i].time = (uint16_t)(2 + i); m[i].ev = 0; m[i].st = CO_INVALID; m[i].run = 0; }
    for (j = 0; j < SHAPEN; j++) {
        uint32_t k = shape[SHAPEN - 1 - j] - 1;          /* activation order = reverse chain order */
        CO_ERR e;
        e = CONmtHbConsActivate(v1016p[k], m[k].time, m[k].node);
        CHECK(e == CO_ERR_NONE, "activation of a consumer for a new node accepted");
        m[k].act = 1;
    }
    for (i = 0; i < E; i++) {
        if (!m[i].act) { V1016(i).NodeId = m[i].node; }           /* inactive entries keep an arbitrary node id */
    }
    for (i = 0; i < E; i++) {
        if (m[i].act) {
#ifdef RUN
            m[i].run = (RUN >> i) & 1;           /* running monitors enumerated by the driver */
#else
            m[i].run = ND_U8() & 1;
#endif
            if (m[i].run) {
                uint8_t stb = ND_U8();
                frm.Identifier = 0x700u + m[i].node; frm.DLC = 1; frm.Data[0] = stb;
                (void)CONmtHbConsCheck(&node.Nmt, &frm);
                m[i].st = CONmtModeDecode(stb);
                CHECK(V1016(i).Tmr >= 0, "monitoring starts with the first heartbeat");
            }
            V1016(i).Event = ND_U8(); m[i].ev = V1016(i).Event;
        }
    }
    check_chain();
    env_tx_n = 0; env_hbevent_n = 0; env_hbchange_n = 0;

#if OP == 0
    {
        uint8_t  nn = ND_U8();
        uint16_t nt = ND_U16();
        uint32_t k = WK - 1;
        uint8_t  monitored = 0;
        MH       o[E];
        int16_t  otmr[E];
        for (i = 0; i < E; i++) { o[i] = m[i]; otmr[i] = V1016(i).Tmr; if (m[i].act && (m[i].node == nn)) { monitored = 1; } }
        d[0] = 0x23; d[1] = 0x16; d[2] = 0x10; d[3] = (uint8_t)WK; d[4] = (uint8_t)nt; d[5] = (uint8_t)(nt >> 8); d[6] = nn; d[7] = 0;
        env_deliver(&node, 0x600 + OD_NODEID, 8, d);
        CHECK(env_tx_n == 1, "SDO answered");
        if ((nt > 0) && monitored) {
            CHECK(env_tx[0].Data[0] == 0x80 && env_tx[0].Data[4] == 0x43 && env_tx[0].Data[5] == 0x00 && env_tx[0].Data[6] == 0x04 && env_tx[0].Data[7] == 0x06,
                  "non-zero time for a node that is already monitored refused with 0604 0043h");
            for (i = 0; i < E; i++) {
                CHECK(V1016(i).Time == (o[i].act ? o[i].time : 0) && V1016(i).NodeId == o[i].node && V1016(i).Tmr == otmr[i] && V1016(i).Event == (o[i].act ? o[i].ev : V1016(i).Event),
                      "refused write changes nothing");
            }
        } else {
            CHECK(env_tx[0].Data[0] == 0x60, "write accepted");
            CHECK(V1016(k).Time == nt && V1016(k).NodeId == nn, "written entry holds the new node and time");
            if (nt == 0) { CHECK(V1016(k).Tmr < 0, "time zero deactivates the written entry"); }
            if ((nt > 0) && (nn >= 1) && (nn <= 127)) {
                /* the entry now monitors a node it did not monitor before: nothing is known about that node yet */
                CHECK(V1016(k).Tmr < 0, "monitoring of a newly configured node starts with its first heartbeat");
                CHECK(CONmtLastHbState(&node.Nmt, nn) == CO_INVALID, "no state is known of a newly monitored node before its first heartbeat");
                CHECK(CONmtGetHbEvents(&node.Nmt, nn) == 0, "no missed heartbeat is counted for a newly monitored node");
            }
            for (i = 0; i < E; i++) {
                if (i != k) {
                    CHECK(V1016(i).Time == (o[i].act ? o[i].time : 0) && V1016(i).NodeId == o[i].node && V1016(i).Tmr == otmr[i], "other entries untouched");
                    if (o[i].act) { CHECK(V1016(i).Event == o[i].ev && V1016(i).State == o[i].st, "monitoring of other entries undisturbed"); }
                }
            }
        }
        check_chain();
        COVER(nt == 0 && !o[k].act && monitored, "time zero for a monitored node written to a free entry");
        COVER(nt > 0 && o[k].act && !monitored, "active entry re-pointed to another node");
        COVER(nt > 0 && monitored, "refused");
    }
#elif OP == 1
    {
        uint8_t n = ND_U8() & 0x7F;
        uint8_t stb = ND_U8();
        int16_t r;
        int32_t hit = -1;
        for (i = 0; i < E; i++) { if (m[i].act && (m[i].node == n)) { hit = (int32_t)i; } }
        frm.Identifier = 0x700u + n; frm.DLC = 1; frm.Data[0] = stb;
        r = CONmtHbConsCheck(&node.Nmt, &frm);
        if (hit >= 0) {
            CHECK(r == (int16_t)n, "heartbeat of a monitored node consumed");
            CHECK(V1016(hit).Tmr >= 0, "monitor timer (re)armed");
            CHECK(env_hbchange_n == ((CONmtModeDecode(stb) != m[hit].st) ? 1u : 0u), "state-change notification exactly when the state differs");
            CHECK(CONmtLastHbState(&node.Nmt, n) == ref_decode(stb), "last state recorded (0 boot-up, 4 stopped, 5 operational, 127 pre-operational)");
        } else {
            CHECK(r < 0 && env_hbchange_n == 0, "heartbeat of an unmonitored node ignored");
        }
        CHECK(env_hbevent_n == 0, "no heartbeat event on reception");
        check_chain();
        COVER(hit >= 0 && m[hit].run, "heartbeat while monitoring runs");
    }
#elif OP == 2
    {
        /* let time pass: exactly the entries whose monitor runs signal an event when their time elapses */
#ifdef TK
        uint32_t t, ticks = TK;                      /* elapsed ticks enumerated by the driver */
#else
        uint32_t t, ticks = ND_RANGE(1, 6);
#endif
        uint32_t exp = 0;
        for (t = 0; t < 6; t++) { if (t < ticks) { env_tick(&node); } }
        for (i = 0; i < E; i++) {
            if (m[i].act && m[i].run) {
                uint32_t n = ticks / m[i].time;              /* OD_FREQ 1000: 1 ms = 1 tick */
                uint32_t e = m[i].ev + n;
                exp += n;
                CHECK(V1016(i).Event == ((e > 255) ? 255 : e), "event counter counts every elapsed period, saturating at 255");
            } else if (m[i].act) {
                CHECK(V1016(i).Event == m[i].ev, "no event before the first heartbeat");
            }
        }
        CHECK(env_hbevent_n == exp, "one heartbeat event per elapsed monitoring period");
        check_chain();
        COVER(exp >= 2, "several periods elapsed");
    }
#elif OP == 3
    {
        uint8_t n = ND_U8();
        int16_t r = CONmtGetHbEvents(&node.Nmt, n);
        int32_t hit = -1;
        for (i = 0; i < E; i++) { if (m[i].act && (m[i].node == n)) { hit = (int32_t)i; } }
        if (hit >= 0) {
            CHECK(r == (int16_t)m[hit].ev, "event counter reported");
            CHECK(V1016(hit).Event == 0, "event counter cleared when read");
        } else {
            CHECK(r < 0, "unknown node");
        }
        for (i = 0; i < E; i++) { if ((int32_t)i != hit && m[i].act) { CHECK(V1016(i).Event == m[i].ev, "other counters untouched"); } }
    }
#else
    {
        uint8_t n = ND_U8();
        CO_MODE r = CONmtLastHbState(&node.Nmt, n);
        int32_t hit = -1;
        for (i = 0; i < E; i++) { if (m[i].act && (m[i].node == n)) { hit = (int32_t)i; } }
        CHECK(r == ((hit >= 0) ? m[hit].st : CO_INVALID), "last heartbeat state");
    }
#endif
    CHECK(env_fatal == 0, "no fatal error");
    (void)snapshot_and_check_others;
    COVER(1, "end");
}
