/* C06 buf_access: CODictRdBuffer/CODictWrBuffer on a domain (KIND=0) or a
 * string (KIND=1, read only) of symbolic size <= B with a fully symbolic 32-bit
 * len and a symbolic start offset left over from an earlier access.  At most
 * `size` bytes may move, so the user buffer needs B+4 bytes only. */
#include "env.h"
#ifndef B
#define B 16
#endif
#ifndef KIND
#define KIND 0
#endif
static uint8_t    store[B + 4];
static uint8_t    orig[B + 4];
static uint8_t    buf[B + 4];
static uint8_t    bufo[B + 4];
static CO_OBJ_DOM dom;
static CO_OBJ_STR str;
static CO_OBJ     od[3];
static CO_NODE    node;

void harness(void)
{
    uint32_t size = ND_RANGE(KIND ? 0 : 1, B);
    uint32_t len  = ND_U32();
    uint32_t off  = ND_U32();
    uint32_t j    = ND_RANGE(0, B + 3);
    uint32_t mv   = (len < size) ? len : size;
    uint32_t i;
    CO_ERR   err;

    /* contents: position-dependent pattern salted with two symbolic bytes (the
     * copy loops are data independent; fully symbolic contents made the array
     * encoding explode, see DESIGN.md) */
    uint8_t  s1 = ND_U8();
    uint8_t  s2 = ND_U8();
    for (i = 0; i < B + 4; i++) { store[i] = (uint8_t)(((i * 7u + 3u) ^ s1) | 1u); orig[i] = store[i]; }
    for (i = 0; i < B + 4; i++) { buf[i] = (uint8_t)((i * 13u + 5u) ^ s2); bufo[i] = buf[i]; }
    od[0].Key = CO_KEY(0x2000, 0, CO_OBJ_D___R_); od[0].Type = CO_TUNSIGNED8; od[0].Data = 1;
#if KIND == 0
    ASSUME(off <= size);
    dom.Offset = off; dom.Size = size; dom.Start = store;
    od[1].Key = CO_KEY(0x2100, 0, CO_OBJ_____RW); od[1].Type = CO_TDOMAIN; od[1].Data = (CO_DATA)&dom;
#else
    store[size] = 0; orig[size] = 0;
    ASSUME(off <= size);
    str.Offset = off; str.Start = store;
    od[1].Key = CO_KEY(0x2100, 0, CO_OBJ_____R_); od[1].Type = CO_TSTRING; od[1].Data = (CO_DATA)&str;
#endif
    od[2].Key = 0; od[2].Type = 0; od[2].Data = 0;
    (void)CODictInit(&node.Dict, &node, od, 3);

    err = CODictRdBuffer(&node.Dict, CO_DEV(0x2100, 0), buf, len);
    CHECK(err == CO_ERR_NONE, "buffer read succeeds");
    if (j < mv) {
        CHECK(buf[j] == orig[j], "read moves the first min(len,size) bytes of the object");
    } else {
        CHECK(buf[j] == bufo[j], "read leaves the buffer beyond min(len,size) untouched");
    }
    CHECK(store[j] == orig[j], "read does not modify the object");
#if KIND == 0
    CHECK(dom.Offset == mv, "read position advanced by the bytes moved, starting from 0");
    /* write back a different buffer */
    for (i = 0; i < B + 4; i++) { buf[i] = (uint8_t)(bufo[i] ^ 0x5A); }
    dom.Offset = off;
    err = CODictWrBuffer(&node.Dict, CO_DEV(0x2100, 0), buf, len);
    CHECK(err == CO_ERR_NONE, "buffer write succeeds");
    if (j < mv) {
        CHECK(store[j] == (uint8_t)(bufo[j] ^ 0x5A), "write moves the first min(len,size) bytes into the object");
    } else {
        CHECK(store[j] == orig[j], "write leaves storage beyond min(len,size) untouched");
    }
    CHECK(dom.Offset == mv, "write position advanced by the bytes moved, starting from 0");
#endif
    COVER(len > 255 && (len & 0xFF) < size, "length above 255 whose low byte is below the object size");
    COVER(len > 65535, "length above 65535");
    COVER(len > size, "length above object size");
    COVER(len < size && len > 0, "length below object size");
    COVER(off != 0, "stale offset");
    COVER(1, "end");
}
