/* Representation invariant of one SDO server (DESIGN.md appendix A), written
 * for the resting phases between two frames.  Used as assumption on the
 * symbolic pre-state and as assertion on the post-state (inductive step). */
#ifndef VERIF_SDO_INV_H
#define VERIF_SDO_INV_H
#include "od.h"

#define SDO_N   CO_SDO_BUF_SEG
#define SDO_BB  CO_SDO_BUF_BYTE

/* obj must be 0 or a dictionary entry; harness passes the candidate set */
/* chk == 0: evaluate (for ASSUME); chk == 1: additionally CHECK every conjunct */
#define INV(c, txt) do { if (!(c)) { if (chk) { CHECK(0, "server invariant: not " txt); } return 0; } } while (0)
static int sdo_inv_x(CO_SDO *s, uint8_t num, CO_OBJ *cand_a, CO_OBJ *cand_b, int chk)
{
    uint8_t *base = &od_sdo_buf[num][0];
    uint32_t cur;

    INV(!(s->Node != &node), "s->Node != &node");
    INV(!(s->Buf.Start != base), "s->Buf.Start != base");
    INV(!((s->Buf.Cur < base) || (s->Buf.Cur > base + SDO_BB)), "(s->Buf.Cur < base) || (s->Buf.Cur > base + SDO_BB)");
    cur = (uint32_t)(s->Buf.Cur - base);
    INV(!(s->Seg.TBit > 1), "s->Seg.TBit > 1");
    INV(!((s->Obj != 0) && (s->Obj != cand_a) && (s->Obj != cand_b)), "(s->Obj != 0) && (s->Obj != cand_a) && (s->Obj != cand_b)");
    /* a block size is validated and clamped before it is stored */
    INV(!(s->Blk.SegNum > SDO_N), "s->Blk.SegNum > SDO_N");

    switch (s->Blk.State) {
    case BLK_IDLE:
        if (s->Obj != 0) {
            /* segmented transfer open: buffer flushed after every segment; an
             * upload segment leaves the cursor behind the <= 7 bytes it sent */
            INV(!(s->Buf.Num != 0), "s->Buf.Num != 0");
            INV(!(cur > 7), "cur > 7");
        }
        /* idle: everything else is an arbitrary left-over */
        return 1;
    case BLK_DOWNLOAD:
        INV(!(s->Obj == 0), "s->Obj == 0");
        INV(CO_IS_WRITE(s->Obj->Key) != 0, "block download open on a writable object");
        INV(!((s->Blk.SegCnt & 0x7F) >= SDO_N), "(s->Blk.SegCnt & 0x7F) >= SDO_N");
        INV(!(s->Buf.Num != 7u * (s->Blk.SegCnt & 0x7Fu)), "s->Buf.Num != 7u * (s->Blk.SegCnt & 0x7Fu)");
        INV(!(cur != s->Buf.Num), "cur != s->Buf.Num");
        return 1;
    case BLK_DNWAIT:
        INV(!(s->Obj == 0), "s->Obj == 0");
        INV(CO_IS_WRITE(s->Obj->Key) != 0, "block download open on a writable object");
        INV(!(s->Blk.SegCnt != 0), "s->Blk.SegCnt != 0");
        INV(!((s->Buf.Num % 7u) != 0), "(s->Buf.Num % 7u) != 0");
        INV(!(s->Buf.Num > SDO_BB), "s->Buf.Num > SDO_BB");
        INV(!(cur != s->Buf.Num), "cur != s->Buf.Num");
        return 1;
    case BLK_UPLOAD:
        INV(!(s->Obj == 0), "s->Obj == 0");
        INV(CO_IS_READ(s->Obj->Key) != 0, "block upload open on a readable object");
        /* SegNum may be 0 when "start upload" arrives without a block upload
         * initiate inside a segmented transfer: nothing is sent then */
        INV(!((s->Blk.SegCnt < 1) || (s->Blk.SegCnt > ((s->Blk.SegNum > 0) ? s->Blk.SegNum : 1))), "SegCnt in 1..max(SegNum,1)");
        /* LastValid is only meaningful once the final segment was sent: arbitrary */
        return 1;
    default:                                   /* BLK_REPEAT is transient     */
        INV(0, "Blk.State is a resting state");
        return 0;
    }
}

/* overwrite server `num` with an arbitrary state of resting phase `ph`
 * (0 idle, 1 segmented open, 2 block download, 3 block download wait, 4 block
 * upload) on object `obj`; buffer contents arbitrary.  Caller assumes sdo_inv. */
static void sdo_arbitrary_state(CO_SDO *s, uint8_t num, int ph, CO_OBJ *obj)
{
    s->Obj        = (ph == 0) ? 0 : obj;
    s->Idx        = ND_U16();
    s->Sub        = ND_U8();
    s->Abort      = ND_U32();
    s->Buf.Num    = ND_U32();
    s->Buf.Cur    = s->Buf.Start + ND_RANGE(0, SDO_BB);
    s->Seg.Size   = ND_U32();
    s->Seg.Num    = ND_U32();
    s->Seg.TBit   = ND_U8();
    s->Blk.Size   = ND_U32();
    s->Blk.Len    = ND_U32();
    s->Blk.SegNum = ND_U8();
    s->Blk.SegCnt = ND_U8();
    s->Blk.SegOk  = ND_U8();
    s->Blk.LastValid = ND_U8();
    ND_BUF(&od_sdo_buf[num][0], SDO_BB);
    s->Blk.State  = (ph <= 1) ? BLK_IDLE : (ph == 2) ? BLK_DOWNLOAD : (ph == 3) ? BLK_DNWAIT : BLK_UPLOAD;
}

#define sdo_inv(s, n, a, b)       sdo_inv_x((s), (n), (a), (b), 0)
#define sdo_inv_check(s, n, a, b) (void)sdo_inv_x((s), (n), (a), (b), 1)

#endif
