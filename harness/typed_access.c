/* C06 typed_access: CODictRd/Wr{Byte,Word,Long} on an entry of width EW
 * (1,2,4), direct (DIRECT=1) or referenced storage; flag bits, node id, stored
 * value and written value symbolic. */
#include "env.h"
#ifndef EW
#define EW 2
#endif
#ifndef DIRECT
#define DIRECT 0
#endif
#if EW == 1
#define TYPE CO_TUNSIGNED8
typedef uint8_t  val_t;
#elif EW == 2
#define TYPE CO_TUNSIGNED16
typedef uint16_t val_t;
#else
#define TYPE CO_TUNSIGNED32
typedef uint32_t val_t;
#endif
static struct { uint8_t pre[4]; val_t v; uint8_t post[4]; } mem;
static CO_OBJ  od[4];
static CO_NODE node;

static val_t stored(void)
{
#if DIRECT
    return (val_t)od[1].Data;
#else
    return mem.v;
#endif
}

void harness(void)
{
    uint8_t  flags = ND_U8();
    uint8_t  id    = (uint8_t)ND_RANGE(1, 127);
    val_t    old   = (val_t)ND_U32();
    val_t    wr    = (val_t)ND_U32();
    uint8_t  b = 0; uint16_t w = 0; uint32_t l = 0;
    uint8_t  g[8];
    uint32_t i;
    CO_ERR   e1, e2, e4;
    uint32_t key;

#if DIRECT
    ASSUME((flags & CO_OBJ_D_____) != 0);
#else
    ASSUME((flags & CO_OBJ_D_____) == 0);
#endif
    ND_BUF(g, 8);
    for (i = 0; i < 4; i++) { mem.pre[i] = g[i]; mem.post[i] = g[4 + i]; }
    od[0].Key = CO_KEY(0x2000, 0, CO_OBJ_D___R_); od[0].Type = CO_TUNSIGNED8; od[0].Data = 7;
    od[1].Key = CO_KEY(0x2100, 3, flags);         od[1].Type = TYPE;
#if DIRECT
    od[1].Data = (CO_DATA)old;
#else
    mem.v = old; od[1].Data = (CO_DATA)&mem.v;
#endif
    od[2].Key = CO_KEY(0x2200, 0, CO_OBJ_D___R_); od[2].Type = CO_TUNSIGNED8; od[2].Data = 9;
    od[3].Key = 0; od[3].Type = 0; od[3].Data = 0;
    node.NodeId = id;
    COTPdoClear(node.TPdo, &node);
    (void)CODictInit(&node.Dict, &node, od, 4);
    key = CO_DEV(0x2100, 3) | ND_U8();     /* flag byte of the key is irrelevant */

    /* reads: only the matching width succeeds and returns stored (+ node id) */
    e1 = CODictRdByte(&node.Dict, key, &b);
    e2 = CODictRdWord(&node.Dict, key, &w);
    e4 = CODictRdLong(&node.Dict, key, &l);
    CHECK((e1 == CO_ERR_NONE) == (EW == 1), "byte read succeeds iff entry is 8 bit");
    CHECK((e2 == CO_ERR_NONE) == (EW == 2), "word read succeeds iff entry is 16 bit");
    CHECK((e4 == CO_ERR_NONE) == (EW == 4), "long read succeeds iff entry is 32 bit");
    {
        val_t exp = (val_t)(old + ((flags & CO_OBJ__N____) ? id : 0));
        val_t got = (EW == 1) ? (val_t)b : (EW == 2) ? (val_t)w : (val_t)l;
        CHECK(got == exp, "read returns stored value plus node id for node-id-relative entries");
    }
    CHECK(stored() == old, "reads do not modify the value");

    /* wrong-width writes are refused and change nothing */
    if (EW != 1) { e1 = CODictWrByte(&node.Dict, key, (uint8_t)wr);  CHECK(e1 != CO_ERR_NONE, "byte write refused on wider entry"); }
    if (EW != 2) { e2 = CODictWrWord(&node.Dict, key, (uint16_t)wr); CHECK(e2 != CO_ERR_NONE, "word write refused on non-16-bit entry"); }
    if (EW != 4) { e4 = CODictWrLong(&node.Dict, key, (uint32_t)wr); CHECK(e4 != CO_ERR_NONE, "long write refused on narrower entry"); }
    CHECK(stored() == old, "refused writes do not modify the value");

    /* matching width: write then read round-trips */
    if (EW == 1) { e1 = CODictWrByte(&node.Dict, key, (uint8_t)wr);  CHECK(e1 == CO_ERR_NONE, "byte write ok");  e1 = CODictRdByte(&node.Dict, key, &b); CHECK(e1 == CO_ERR_NONE && b == (uint8_t)wr, "byte round trip"); }
    if (EW == 2) { e2 = CODictWrWord(&node.Dict, key, (uint16_t)wr); CHECK(e2 == CO_ERR_NONE, "word write ok");  e2 = CODictRdWord(&node.Dict, key, &w); CHECK(e2 == CO_ERR_NONE && w == (uint16_t)wr, "word round trip"); }
    if (EW == 4) { e4 = CODictWrLong(&node.Dict, key, (uint32_t)wr); CHECK(e4 == CO_ERR_NONE, "long write ok");  e4 = CODictRdLong(&node.Dict, key, &l); CHECK(e4 == CO_ERR_NONE && l == (uint32_t)wr, "long round trip"); }
    CHECK(stored() == (val_t)(wr - ((flags & CO_OBJ__N____) ? id : 0)), "stored value is written value minus node id for node-id-relative entries");
    for (i = 0; i < 4; i++) {
        CHECK(mem.pre[i] == g[i] && mem.post[i] == g[4 + i], "neighbouring storage untouched");
    }
    CHECK(od[0].Data == 7 && od[2].Data == 9, "other entries untouched");
    CHECK(env_fatal == 0, "no fatal error");
    COVER((flags & CO_OBJ__N____) != 0 && (val_t)(wr - id) > wr, "node-id relative with wrap-around");
    COVER((flags & (CO_OBJ___A___ | CO_OBJ____P__)) == (CO_OBJ___A___ | CO_OBJ____P__) && wr != old, "async mappable changed");
    COVER(1, "end");
}
