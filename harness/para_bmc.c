/* C17 para_bmc: parameter store / restore with restart and NVM faults.
 * G parameter groups (1010h/1011h sub 1..G), group g at NVM offset 8*g with a
 * symbolic size 1..8, symbolic enable flag, reset type TYPES[g] (1 node, 2
 * communication); RAM images, the initial NVM image, signatures symbolic; the
 * k-th NVM driver call returns a short count for symbolic k.
 *   SEQ  string over 's' store request, 'r' restore request, 'B' restart (node
 *        zeroed, CONodeInit again, NVM kept), 'C' NMT reset communication,
 *        'N' NMT reset node, 'a' application changes the RAM images
 *   SUBS sub-index per request step                                           */
#define OD_PARA
#include "od.h"
#ifndef SEQ
#define SEQ "asB"
#endif
#ifndef SUBS
#define SUBS {1,1,1,1,1,1}
#endif
#ifndef TYPES
#define TYPES {1,2,1}
#endif
#define G OD_PARA_G

static const uint8_t subs[] = SUBS;
static const uint8_t types[] = TYPES;
static uint8_t  m_nvm[8 * 3];            /* model: NVM contents                   */
static uint8_t  m_known[3];              /* model knows the NVM image of group g  */
static uint32_t gsize[3];
static uint8_t  gen[3];                  /* enabled for storing on command (E)        */
static uint8_t  gauto[3];                /* enabled for autonomous storing (A): irrelevant for store requests */

static void setup_groups(void)
{
    uint32_t g;
    for (g = 0; g < G; g++) {
        CO_PARA *p = od_parap[g];
        p->Offset = 8 * g; p->Size = gsize[g]; p->Start = &od_para_ram[g][0]; p->Default = &od_para_def[g][0];
        p->Type = (types[g] == 1) ? CO_RESET_NODE : CO_RESET_COM; p->Ident = 0; p->Value = (uint32_t)((gen[g] ? CO_PARA___E : CO_PARA____) | (gauto[g] ? CO_PARA__A_ : CO_PARA____));
    }
}
static void sdo_wr(uint16_t idx, uint8_t sub, uint32_t v)
{
    uint8_t d[8];
    d[0] = 0x23; d[1] = (uint8_t)idx; d[2] = (uint8_t)(idx >> 8); d[3] = sub;
    d[4] = (uint8_t)v; d[5] = (uint8_t)(v >> 8); d[6] = (uint8_t)(v >> 16); d[7] = (uint8_t)(v >> 24);
    env_tx_n = 0;
    env_deliver(&node, 0x600 + OD_NODEID, 8, d);
}
/* after a (re)load of group g: RAM equals the model image, unless a read fault was reported */
static void check_loaded(uint32_t g)
{
    uint32_t i;
    for (i = 0; i < 8; i++) {
        if ((i < gsize[g]) && m_known[g]) { CHECK(od_para_ram[g][i] == m_nvm[8 * g + i], "parameters equal the last successfully stored image"); }
    }
}

void harness(void)
{
    static const char seq[] = SEQ;
    uint32_t s, g, i;
    uint32_t fault_k = ND_RANGE(0, ENV_NVM_CALLS);     /* which NVM call fails (== CALLS: none) */
    uint32_t fault_n = ND_RANGE(1, 8);
    uint8_t  faulted = 0;

    env_reset();
    od_defaults();
    for (g = 0; g < G; g++) { gsize[g] = ND_RANGE(1, 8); gen[g] = ND_U8() & 1; gauto[g] = ND_U8() & 1; }
    ND_BUF(env_nvm, 8 * G);
    for (i = 0; i < 8 * G; i++) { m_nvm[i] = env_nvm[i]; }
    for (g = 0; g < G; g++) { m_known[g] = 1; ND_BUF(&od_para_ram[g][0], 8); }
    setup_groups();
    node_boot();
    CHECK(node.Error == CO_ERR_NONE, "first start without NVM fault");
    for (g = 0; g < G; g++) { check_loaded(g); }
    for (i = 0; i < ENV_NVM_CALLS; i++) { env_nvm_short[i] = (i == fault_k) ? fault_n : 0; }
    env_nvm_call_n = 0;

    for (s = 0; s + 1 < sizeof(seq); s++) {
        char o = seq[s];
        uint32_t calls0 = env_nvm_call_n;
        uint8_t  ram0[3][8], nvm0[8 * 3];
        uint8_t  hit;
        for (g = 0; g < G; g++) { for (i = 0; i < 8; i++) { ram0[g][i] = od_para_ram[g][i]; } }
        for (i = 0; i < 8 * G; i++) { nvm0[i] = env_nvm[i]; }
        env_paradef_n = 0;
        if (o == 'u') {
            /* SDO uploads of the store / restore objects are reads: neither RAM nor NVM changes */
            uint8_t d[8] = { 0x40, 0x10, 0x10, 0, 0, 0, 0, 0 };
            static uint8_t un;
            d[3] = (un == 0) ? 0 : ((un == 1) ? 0 : subs[s]); d[1] = (un == 1) ? 0x11 : 0x10; un++;       /* 1010h:0, 1011h:0, then 1010h:sub */
            env_tx_n = 0;
            env_deliver(&node, 0x600 + OD_NODEID, 8, d);
            CHECK(env_tx_n == 1 && env_tx[0].Data[0] != 0x80, "1010h / 1011h can be read");
            CHECK(env_nvm_call_n == calls0 && env_paradef_n == 0, "reading 1010h / 1011h touches neither NVM nor the default callback");
            for (g = 0; g < G; g++) { for (i = 0; i < 8; i++) { CHECK(od_para_ram[g][i] == ram0[g][i], "reading 1010h / 1011h does not modify the RAM parameters"); } }
        } else if (o == 'a') {
            for (g = 0; g < G; g++) { ND_BUF(&od_para_ram[g][0], 8); }
        } else if ((o == 's') || (o == 'r')) {
            uint8_t  sub  = subs[s];
            uint32_t sig  = ND_U32();
            uint32_t good = (o == 's') ? 0x65766173u : 0x64616F6Cu;
            uint8_t  is_abort;
            uint8_t  addressed[3];
            for (g = 0; g < G; g++) { addressed[g] = ((sub == 1) && (G > 1)) ? (g >= 1) : (g + 1 == sub); }
            sdo_wr((o == 's') ? 0x1010 : 0x1011, sub, sig);
            CHECK(env_tx_n == 1, "SDO answered");
            is_abort = (env_tx[0].Data[0] == 0x80);
            hit = (fault_k >= calls0) && (fault_k < env_nvm_call_n);
            if (sig != good) {
                CHECK(is_abort, "any other value than the signature is refused");
                CHECK(env_nvm_call_n == calls0 && env_paradef_n == 0, "refused request touches neither NVM nor the default callback");
                for (i = 0; i < 8 * G; i++) { CHECK(env_nvm[i] == nvm0[i], "refused request leaves NVM unchanged"); }
            } else if (o == 's') {
                if (hit) { CHECK(is_abort, "short NVM write surfaces as SDO abort"); faulted = 1; }
                else     { CHECK(!is_abort, "store confirmed"); }
                for (g = 0; g < G; g++) {
                    for (i = 0; i < 8; i++) {
                        uint8_t in = addressed[g] && gen[g] && (i < gsize[g]);
                        if (!in)       { CHECK(env_nvm[8 * g + i] == nvm0[8 * g + i], "only the bytes of the addressed, enabled groups are written"); }
                        else if (!hit) { CHECK(env_nvm[8 * g + i] == od_para_ram[g][i], "NVM holds exactly the bytes of the addressed group"); }
                    }
                    if (addressed[g] && gen[g]) {
                        if (hit) { m_known[g] = 0; } else { m_known[g] = 1; for (i = 0; i < 8; i++) { if (i < gsize[g]) { m_nvm[8 * g + i] = od_para_ram[g][i]; } } }
                    }
                }
                CHECK(env_paradef_n == 0, "store does not call the default callback");
            } else {
                uint32_t exp = 0, k = 0;
                for (g = 0; g < G; g++) { if (addressed[g] && gen[g]) { exp++; } }
                CHECK(!is_abort, "restore confirmed");
                CHECK(env_paradef_n == exp, "default callback invoked for exactly the addressed, enabled groups");
                for (g = 0; g < G; g++) {
                    if (addressed[g] && gen[g]) { if (k < 4) { CHECK(env_paradef_pg[k] == od_parap[g], "default callback gets the addressed group"); } k++; }
                }
                CHECK(env_nvm_call_n == calls0, "restore does not touch NVM");
            }
            for (g = 0; g < G; g++) { for (i = 0; i < 8; i++) { CHECK(od_para_ram[g][i] == ram0[g][i], "requests do not modify the RAM parameters"); } }
        } else {
            /* ---- restart / reset: groups reloaded from NVM ---- */
            CO_ERR e;
            if (o == 'B') {
                static const CO_NODE zero_node;
                node = zero_node;                  /* power cycle: RAM lost, NVM kept */
                env_tx_n = 0;
                node_boot();
            } else {
                CONmtReset(&node.Nmt, (o == 'N') ? CO_RESET_NODE : CO_RESET_COM);
            }
            e = CONodeGetErr(&node);
            hit = (fault_k >= calls0) && (fault_k < env_nvm_call_n);
            if (hit) {
                /* which read came back short: groups are read type by type (node groups, then communication groups), in sub-index order */
                uint32_t idx = 0, pass, fpass = 0, fg = G;
                CHECK(e != CO_ERR_NONE, "short NVM read surfaces as node error"); faulted = 1;
                for (pass = ((o == 'C') ? 2 : 1); pass <= 2; pass++) {
                    for (g = 0; g < G; g++) { if (types[g] == pass) { if (calls0 + idx == fault_k) { fpass = pass; fg = g; } idx++; } }
                }
                /* the short read of one group does not keep the other groups of that reload from being read */
                for (g = 0; g < G; g++) { if ((types[g] == fpass) && (g != fg)) { check_loaded(g); } }
                COVER(fg < G && G > 1, "short read of one of several groups");
            }
            else {
                CHECK(e == CO_ERR_NONE, "reload without fault reports no error");
                for (g = 0; g < G; g++) {
                    uint8_t reload = (o == 'B') || (o == 'N') || (types[g] == 2);
                    if (reload) { check_loaded(g); }
                    else { for (i = 0; i < 8; i++) { CHECK(od_para_ram[g][i] == ram0[g][i], "reset communication leaves node-type groups alone"); } }
                }
            }
        }
        CHECK(env_nvm_oob == 0, "NVM accessed inside the groups only");
        CHECK(env_fatal == 0, "no fatal error");
    }
    COVER(faulted, "NVM fault hit");
    COVER(!faulted && m_known[0] && m_known[1], "no fault");
    COVER(1, "end");
}
