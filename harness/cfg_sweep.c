/* C01 cfg_sweep: configuration sweep.  The driver enumerates subsets of the
 * optional dictionary groups (-DOD_EMCY -DOD_SYNC -DOD_HBC -DOD_PARA -DOD_CSDO
 * -DOD_RPDO=n -DOD_TPDO=n -DOD_DUMMY) and build configurations (CO_SSDO_N,
 * USE_LSS, USE_CSDO, timer frequency OD_FREQ); the node always has its
 * RPDO/TPDO/SDO-client/EMCY machinery compiled in, so a dictionary that lacks
 * the matching objects is the interesting case.  On each configuration:
 * CONodeInit + CONodeStart, then one input of every class with symbolic data,
 * ticks, triggers, driver faults (symbolic CAN send results, one short NVM
 * count), NMT stop/start and both resets.  Only memory safety, arithmetic,
 * termination (unwinding assertions) and the fatal-error callback decide.
 * The input sequence is cut into PART 0 (LSS + configuration writes),
 * 1 (received traffic in OPERATIONAL), 3 (triggers, EMCY, SDO client) and 2 (ticks, stop/start,
 * resets); times concrete. */
#ifndef PART
#define PART 0
#endif
#include "od.h"

#ifndef T1017
#define T1017 2
#define T1006 2
#define T1016 1
#define TEVT  2
#define TINH  1
#endif
static uint32_t cb_n;
static void cb(CO_CSDO *c, uint16_t idx, uint8_t sub, uint32_t code) { (void)c; (void)idx; (void)sub; (void)code; cb_n++; }
static uint8_t cbuf[8];

static void frame(uint32_t id, uint8_t dlc, const uint8_t *d) { env_tx_n = 0; env_deliver(&node, id, dlc, d); }
static void nmt(uint8_t cs) { uint8_t d[8] = { 0, 0, 0, 0, 0, 0, 0, 0 }; d[0] = cs; d[1] = OD_NODEID; frame(0x000, 2, d); }
static void sdo(uint8_t cmd, uint16_t idx, uint8_t sub, uint32_t v)
{
    uint8_t d[8];
    d[0] = cmd; d[1] = (uint8_t)idx; d[2] = (uint8_t)(idx >> 8); d[3] = sub;
    d[4] = (uint8_t)v; d[5] = (uint8_t)(v >> 8); d[6] = (uint8_t)(v >> 16); d[7] = (uint8_t)(v >> 24);
    frame(0x600 + OD_NODEID, 8, d);
}
#define SAFE() CHECK(env_fatal == 0, "no fatal error")

void harness(void)
{
    uint8_t  d[8];
    uint32_t i;
    uint8_t  dlc;

    env_reset();
    od_defaults();
    v1017 = T1017;
#ifdef OD_SYNC
    v1005 = 0x80u | (T1006 ? 0x40000000u : 0); v1006 = T1006 * 1000u;
#endif
#ifdef OD_EMCY
    for (i = 0; i < CO_EMCY_N; i++) { od_emcy_tbl[i].Reg = ND_U8() & 7; od_emcy_tbl[i].Code = ND_U16(); }
    v1014 = 0x80u | ((ND_U8() & 1) ? 0x80000000u : 0);
#endif
#ifdef OD_HBC
    V1016(0).NodeId = 0x22; V1016(0).Time = T1016;
#endif
#ifdef OD_PARA
    for (i = 0; i < OD_PARA_G; i++) {
        CO_PARA *p = od_parap[i];
        p->Offset = 8 * i; p->Size = ND_RANGE(1, 8); p->Start = &od_para_ram[i][0]; p->Default = &od_para_def[i][0];
        p->Type = (i & 1) ? CO_RESET_COM : CO_RESET_NODE; p->Ident = 0; p->Value = (ND_U8() & 1) ? CO_PARA___E : CO_PARA____;
    }
    { uint32_t k = ND_RANGE(0, ENV_NVM_CALLS); if (k < ENV_NVM_CALLS) { env_nvm_short[k] = ND_RANGE(1, 8); } }
#endif
#if OD_TPDO > 0
    V1800_5(0) = TEVT; V1800_3(0) = TINH * 10u;
    V1A00_0(0) = 1; V1A00(0, 0) = CO_LINK(0x2103, 0, 8);
#endif
#if OD_RPDO > 0
    V1400_2(0) = 1; V1400_2(1) = 254;          /* channel 0 synchronous, channel 1 asynchronous */
    V1600_0(1) = 1; V1600(1, 0) = CO_LINK(0x2102, 0, 32);
    V1600_0(0) = 2; V1600(0, 0) = CO_LINK(0x2101, 0, 16); V1600(0, 1) = CO_LINK(0x2100, 0, 8);
#endif
    /* failing CAN transmissions */
    for (i = 0; i < ENV_TX_MAX; i++) { env_send_ret[i] = (ND_U8() & 1) ? (int16_t)-1 : (int16_t)0; }
    node_init();
    SAFE();
    CONodeStart(&node);
    SAFE();

    /* one input of every class, data symbolic */
#if PART == 0
    ND_BUF(d, 8); dlc = (uint8_t)ND_RANGE(0, 8);
    frame(0x7E5, dlc, d);                         SAFE();    /* LSS, any command specifier */
    sdo(0x40, 0x1017, 0, 0);                      SAFE();
    sdo(0x40, 0x1003, 1, 0);                      SAFE();    /* optional objects: present or refused */
    sdo(0x23, 0x1005, 0, 0x40000080u);            SAFE();
    sdo(0x23, 0x1016, 1, 0x00220001u);            SAFE();
    sdo(0x23, 0x1010, 1, 0x65766173u);            SAFE();
    sdo(0x23, 0x1011, 1, 0x64616F6Cu);            SAFE();
    sdo(0x2B, 0x1800, 5, 1);                      SAFE();
    sdo(0x23, 0x1400, 1, 0x80000200u + OD_NODEID); SAFE();
    sdo(0x23, 0x1280, 1, 0x80000600u);            SAFE();
    sdo(0x2F, 0x1003, 0, 0);                      SAFE();
    nmt(1);                                       SAFE();
    env_tick(&node);                              SAFE();
#elif PART == 1
    nmt(1);                                       SAFE();    /* OPERATIONAL: PDO tables built from whatever exists */
    ND_BUF(d, 8); dlc = (uint8_t)ND_RANGE(0, 8);
    frame(0x200 + OD_NODEID, dlc, d);             SAFE();    /* RPDO 0 */
    frame(0x300 + OD_NODEID, dlc, d);             SAFE();    /* RPDO 1 */
    frame(0x080, 0, d);                           SAFE();    /* SYNC */
    frame(0x700 + 0x22, 1, d);                    SAFE();    /* heartbeat of a (possibly) monitored node */
    frame(0x580 + 9, 8, d);                       SAFE();    /* answer to the SDO client */
    frame(0x081, dlc, d);                         SAFE();    /* nobody's identifier */
    frame(0x080, 0, d);                           SAFE();
    env_tick(&node);                              SAFE();
#elif PART == 3
    nmt(1);                                       SAFE();
    ND_BUF(d, 8);
    COTPdoTrigPdo(node.TPdo, 0);                  SAFE();
    COTPdoTrigPdo(node.TPdo, 1);                  SAFE();
    { CO_OBJ *o = od_find(0x2103, 0); if (o != 0) { COTPdoTrigObj(node.TPdo, o); } } SAFE();
#ifdef OD_EMCY
    COEmcySet(&node.Emcy, 1, 0);                  SAFE();
    COEmcySet(&node.Emcy, CO_EMCY_N, 0);          SAFE();    /* out of range: refused */
    COEmcyClr(&node.Emcy, 1);                     SAFE();
#endif
#if USE_CSDO
    { CO_CSDO *c = COCSdoFind(&node, 0); if (c != 0) { (void)COCSdoRequestUpload(c, CO_DEV(0x2345, 6), cbuf, 4, cb, 2); } } SAFE();
#endif
    (void)CONmtGetHbEvents(&node.Nmt, 0x22);      SAFE();
    env_tick(&node);                              SAFE();
    env_tick(&node);                              SAFE();
#else
    nmt(1);                                       SAFE();
    d[0] = ND_U8();
    frame(0x700 + 0x22, 1, d);                    SAFE();
    COTPdoTrigPdo(node.TPdo, 0);                  SAFE();
    env_tick(&node);                              SAFE();
    env_tick(&node);                              SAFE();
    env_tick(&node);                              SAFE();
    nmt(2);                                       SAFE();
    frame(0x080, 0, d);                           SAFE();
    env_tick(&node);                              SAFE();
    nmt(1);                                       SAFE();
    nmt(130);                                     SAFE();    /* reset communication */
    env_tick(&node);                              SAFE();
    nmt(129);                                     SAFE();    /* reset node */
    env_tick(&node);                              SAFE();
    env_tick(&node);                              SAFE();
#endif
    CHECK(env_lock_err == 0, "timer critical sections balanced");
    COVER(env_tx_n > 0 || cb_n > 0 || env_canrcv_n > 0, "something observable happened");
    COVER(1, "end");
}
