/* C18 lss_step: ONE arbitrary frame on 7E5h from an ARBITRARY LSS slave state
 * (mode, step, pending configuration, flags), arbitrary identity 1018h:1..4
 * and node id; oracle = CiA 305 service table written here.  One step from
 * an arbitrary state covers every request order.
 *   MODE NMT mode 2 PRE-OP, 3 OPERATIONAL, 4 STOP
 *   ACT  1: instead, the store -> load -> reset communication scenario      */
#include "od.h"
#ifndef MODE
#define MODE 2
#endif
#ifndef ACT
#define ACT 0
#endif

static const uint32_t baud_tbl[10] = { 1000000, 800000, 500000, 250000, 125000, 0, 50000, 20000, 10000, 0 };
static uint32_t arg32(const uint8_t *d) { return (uint32_t)d[1] | ((uint32_t)d[2] << 8) | ((uint32_t)d[3] << 16) | ((uint32_t)d[4] << 24); }
static uint32_t res32(const CO_IF_FRM *r) { return (uint32_t)r->Data[1] | ((uint32_t)r->Data[2] << 8) | ((uint32_t)r->Data[3] << 16) | ((uint32_t)r->Data[4] << 24); }

void harness(void)
{
    CO_LSS  *l = &node.Lss;
    uint8_t  d[8];
    uint8_t  dlc;
    uint32_t id[5];
    uint32_t i;

    env_reset();
    od_defaults();
    for (i = 1; i <= 4; i++) { id[i] = ND_U32(); od_find(0x1018, (uint8_t)i)->Data = (CO_DATA)id[i]; }
    node_boot();
#if MODE == 3
    CONmtSetMode(&node.Nmt, CO_OPERATIONAL);
#elif MODE == 4
    CONmtSetMode(&node.Nmt, CO_STOP);
#endif
    CHECK(node.Error == CO_ERR_NONE && l->Mode == CO_LSS_WAIT, "LSS slave waiting after start");
    env_tx_n = 0;

#if ACT == 0
    {
        uint8_t  mode0, step0, nid0, flags0, cs;
        uint32_t baud0, a;
        uint8_t  allowed_wait, allowed_conf, allowed;
        uint8_t  answered;
        const CO_IF_FRM *r = &env_tx[0];
        uint8_t  p, q;

        /* arbitrary LSS state */
#ifdef LMODE
        l->Mode        = LMODE ? CO_LSS_CONF : CO_LSS_WAIT;   /* concrete: keeps the claimed/not-claimed decision of CONodeProcess concrete */
#else
        l->Mode        = (ND_U8() & 1) ? CO_LSS_CONF : CO_LSS_WAIT;
#endif
        l->Step        = ND_U8();
        l->CfgNodeId   = ND_U8();
        l->CfgBaudrate = ND_U32();
        l->Flags       = ND_U8() & CO_LSS_STORED;
        node.NodeId    = ND_U8();
        ASSUME(((node.NodeId >= 1) && (node.NodeId <= 127)) || (node.NodeId == 0xFF));
        env_lssstore_ret = (ND_U8() & 1) ? CO_ERR_NONE : CO_ERR_LSS_STORE;
        mode0 = l->Mode; step0 = l->Step; nid0 = l->CfgNodeId; baud0 = l->CfgBaudrate; flags0 = l->Flags;
        p = (step0 <= 3) ? step0 : 0;                       /* selective progress */
        q = ((step0 >= 10) && (step0 <= 15)) ? (uint8_t)(step0 - 10) : 0;   /* identify progress */

        ND_BUF(d, 8);
        dlc = (uint8_t)ND_RANGE(0, 8);
#ifdef CS
        d[0] = CS;                 /* command specifier enumerated by the driver (all 256), arguments symbolic */
#endif
        cs  = d[0];
        a   = arg32(d);
#if defined(CS) && ((CS == 67) || (CS == 75) || (CS == 76))
        /* whether these services answer depends on symbolic data; through
         * CONodeProcess cbmc then also walks the infeasible 'not an LSS frame'
         * continuation with a symbolic frame and does not finish.  The decoder
         * is called directly; the routing of answered / unanswered LSS frames in
         * CONodeProcess is covered by every other command specifier. */
        {
            CO_IF_FRM fr;
            int16_t   res;
            fr.Identifier = 0x7E5; fr.DLC = dlc;
            for (i = 0; i < 8; i++) { fr.Data[i] = d[i]; }
            res = COLssCheck(l, &fr);
            CHECK(res != 0, "frame on 7E5h is claimed by LSS");
            if (res > 0) { env_tx[0] = fr; env_tx_n = 1; }
        }
#else
        env_deliver(&node, 0x7E5, dlc, d);
#endif

        allowed_wait = (cs == 4) || ((cs >= 64) && (cs <= 67)) || ((cs >= 70) && (cs <= 76));
        allowed_conf = (cs == 4) || (cs == 21) || (cs == 19) || (cs == 17) || (cs == 23) || ((cs >= 90) && (cs <= 94)) || ((cs >= 70) && (cs <= 76));
        allowed = (mode0 == CO_LSS_WAIT) ? allowed_wait : allowed_conf;
        answered = (env_tx_n == 1);

        CHECK(env_canrcv_n == 0, "LSS frame is never passed on");
        CHECK(env_tx_n <= 1, "at most one answer");
        if (answered) { CHECK(r->Identifier == 0x7E4, "answer on 7E4h"); }
        if (cs != 21) { CHECK(CONmtGetMode(&node.Nmt) == ((MODE == 2) ? CO_PREOP : (MODE == 3) ? CO_OPERATIONAL : CO_STOP), "NMT mode untouched"); }

        if (!allowed) {
            CHECK(!answered, "service outside its LSS state (or unknown) is ignored");
            CHECK(l->Mode == mode0 && l->CfgNodeId == nid0 && l->CfgBaudrate == baud0 && l->Flags == flags0 && l->Step == step0, "ignored service changes nothing");
            CHECK(env_lssstore_n == 0, "no store");
        } else if (cs == 4) {
            CHECK(!answered, "switch state global is unconfirmed");
            if (d[1] == 1) { CHECK(l->Mode == CO_LSS_CONF, "switch state global: configuration"); }
            if (d[1] == 0) { CHECK(l->Mode == CO_LSS_WAIT, "switch state global: waiting"); }
        } else if ((cs >= 64) && (cs <= 66)) {
            uint8_t k = (uint8_t)(cs - 64);               /* 0 vendor, 1 product, 2 revision */
            CHECK(!answered && l->Mode == CO_LSS_WAIT, "selective: no answer before the serial number");
            if ((step0 <= 3) || (k == 0)) {
                uint8_t ok = (a == id[k + 1]) && ((k == 0) || (p == k));
                if (ok) { CHECK(l->Step == (uint8_t)(k + 1), "selective: progress in order and on equality"); }
                else    { CHECK(l->Step == 0 || ((k != 0) && (p == k) && (l->Step == k)), "selective: no progress out of order or on a mismatch"); }
            }
        } else if (cs == 67) {
            uint8_t ok = (p == 3) && (a == id[4]);
            CHECK(answered == ok, "selective: answer exactly when vendor, product, revision and serial matched in this order");
            if (ok) { CHECK(r->Data[0] == 68 && l->Mode == CO_LSS_CONF, "selective: 44h and configuration state"); }
            else    { CHECK(l->Mode == CO_LSS_WAIT, "selective: stays waiting"); }
        } else if ((cs >= 70) && (cs <= 74)) {
            uint8_t k = (uint8_t)(cs - 70);
            uint8_t m = (k == 0) ? (a == id[1]) : (k == 1) ? (a == id[2]) : (k == 2) ? (a <= id[3]) : (k == 3) ? (a >= id[3]) : (a <= id[4]);
            CHECK(!answered && l->Mode == mode0, "identify: no answer before the last frame");
            if ((step0 >= 10) || (k == 0)) {
                uint8_t ok = m && ((k == 0) || (q == k));
                if (ok) { CHECK(l->Step == (uint8_t)(10 + k + 1), "identify: progress in order and inside the range"); }
                else    { CHECK(l->Step == 10 || ((k != 0) && (q == k) && (l->Step == (uint8_t)(10 + k))), "identify: no progress out of order or outside the range"); }
            }
        } else if (cs == 75) {
            uint8_t ok = (q == 5) && (a >= id[4]);
            CHECK(answered == ok, "identify: 4Fh exactly when the identity lies within the requested ranges");
            if (ok) { CHECK(r->Data[0] == 79, "identify answer 4Fh"); }
            CHECK(l->Mode == mode0, "identify leaves the LSS state");
        } else if (cs == 76) {
            CHECK(l->Mode == mode0, "identify non-configured leaves the LSS state");
        } else if (cs == 17) {
            uint8_t ok = ((d[1] >= 1) && (d[1] <= 127)) || (d[1] == 0xFF);
            CHECK(answered && r->Data[0] == 17 && r->Data[1] == (ok ? 0 : 1), "configure node id: accepted for 1..127 and 255 only");
            CHECK(l->CfgNodeId == (ok ? d[1] : nid0), "configure node id: pending id");
        } else if (cs == 19) {
            uint8_t ok = (d[1] == 0) && (d[2] < 10) && (baud_tbl[d[2] % 10] != 0);
            CHECK(answered && r->Data[0] == 19 && r->Data[1] == (ok ? 0 : 1), "configure bit timing: table 0 with a defined rate only");
            if (ok) { CHECK(l->CfgBaudrate == baud_tbl[d[2] % 10], "configure bit timing: pending rate"); }
        } else if (cs == 23) {
            CHECK(env_lssstore_n == 1 && env_lssstore_baud == baud0 && env_lssstore_node == nid0, "store: callback gets the pending configuration");
            CHECK(answered && r->Data[0] == 23 && r->Data[1] == ((env_lssstore_ret == CO_ERR_NONE) ? 0 : 2), "store: error code");
        } else if ((cs >= 90) && (cs <= 93)) {
            CHECK(answered && r->Data[0] == cs && res32(r) == id[cs - 89], "inquire identity");
        } else if (cs == 94) {
            CHECK(answered && r->Data[0] == 94 && r->Data[1] == node.NodeId, "inquire node id");
        }
        if (cs != 23) { CHECK(env_lssstore_n == 0, "store callback only for the store service"); }
        COVER(cs == 67 && answered, "selective complete");
        COVER(cs == 75 && answered, "identify complete");
        COVER(!allowed && allowed_conf, "configuration service in waiting state");
        COVER(cs == 19 && answered && env_tx[0].Data[1] == 1, "bit timing refused");
    }
#else
    {
        uint8_t nid = (uint8_t)ND_RANGE(1, 127);
        uint8_t bix = (uint8_t)ND_RANGE(0, 8);
        ASSUME(bix != 5);
        for (i = 0; i < 8; i++) { d[i] = 0; }
        d[0] = 4;  d[1] = 1;              env_deliver(&node, 0x7E5, 8, d);
        d[0] = 17; d[1] = nid;            env_deliver(&node, 0x7E5, 8, d);
        d[0] = 19; d[1] = 0; d[2] = bix;  env_deliver(&node, 0x7E5, 8, d);
        d[0] = 23; d[1] = 0; d[2] = 0;    env_deliver(&node, 0x7E5, 8, d);
        CHECK(env_tx_n == 3 && env_tx[2].Data[0] == 23 && env_tx[2].Data[1] == 0, "configuration stored");
        CHECK(env_lssstore_n == 1 && env_lssstore_node == nid && env_lssstore_baud == baud_tbl[bix], "store callback arguments");
        CHECK(node.NodeId == OD_NODEID, "stored configuration not active before the reset");
        env_tx_n = 0;
        CONmtReset(&node.Nmt, CO_RESET_COM);
        CHECK(node.NodeId == nid && node.Baudrate == baud_tbl[bix], "stored node id and bit rate active after reset communication");
        CHECK(env_tx_n == 1 && env_tx[0].Identifier == 0x700u + nid && env_tx[0].DLC == 1 && env_tx[0].Data[0] == 0, "boot-up with the stored node id");
        CHECK(node.Lss.Mode == CO_LSS_WAIT, "LSS waiting after reset");
        /* a second session: a configuration that is requested but NOT stored is gone after the next reset */
        {
            uint8_t nid2 = (uint8_t)ND_RANGE(1, 127);
            uint32_t st0;
            ASSUME(nid2 != nid);
            d[0] = 4;  d[1] = 1; d[2] = 0;    env_deliver(&node, 0x7E5, 8, d);
            d[0] = 17; d[1] = nid2;           env_deliver(&node, 0x7E5, 8, d);
            d[0] = 19; d[1] = 0; d[2] = (uint8_t)((bix + 1) % 5); env_deliver(&node, 0x7E5, 8, d);
            env_tx_n = 0;
            CONmtReset(&node.Nmt, CO_RESET_COM);
            CHECK(node.NodeId == nid && env_tx_n == 1 && env_tx[0].Identifier == 0x700u + nid, "a configuration that was not stored does not become active");
            st0 = env_lssstore_n;
            d[0] = 4;  d[1] = 1; d[2] = 0;    env_deliver(&node, 0x7E5, 8, d);
            d[0] = 23; d[1] = 0;              env_deliver(&node, 0x7E5, 8, d);
            CHECK(env_lssstore_n == st0 + 1 && env_lssstore_node == 0 && env_lssstore_baud == 0, "a configuration requested before the reset does not leak into a later store");
        }
    }
#endif
    CHECK(env_fatal == 0, "no fatal error");
    COVER(1, "end");
}
