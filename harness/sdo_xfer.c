/* C02 / C03 / C05 sdo_xfer: a reference CLIENT in the harness drives the real
 * SDO server through CONodeProcess and checks every response and the final
 * object contents.
 *   XF   transfer kind
 *        0 expedited download + expedited upload read-back of an integer (TGT 0..3)
 *        1 segmented download to the domain (size, size-indication, payload symbolic)
 *        2 segmented upload of the domain / of the string (TGT 6/7)
 *        3 block download to the domain, one lost segment per block (symbolic position)
 *        4 block upload of the domain / string, symbolic block size, ack position, new block size
 *   PRE  0 freshly booted node (C02/C03)
 *        1..5 server first put into an ARBITRARY state of phase PRE-1 under the
 *             invariant, then a client abort (80h) is sent            (C05)
 *        6..10 same arbitrary state, then NMT reset communication      (C05)
 *        11   arbitrary IDLE state (every left-over of earlier transfers), nothing in between (C05)
 *   BSP  block upload: block size announced inside a PARTIAL acknowledge (0: the current one)
 *   PTGT object the arbitrary pre-state is open on (default domain)            */
#if defined(TGT) && (TGT == 4)
#define OD_DN16            /* 2112h: 16 bit, direct storage, node-id relative */
#endif
#include "sdo_inv.h"

#ifndef XF
#define XF 1
#endif
#ifndef PRE
#define PRE 0
#endif
#ifndef TGT
#define TGT 6
#endif
#ifndef PTGT
#define PTGT 6
#endif
#define D OD_DOM_SIZE
#ifndef NSEG
#define NSEG 2          /* number of 7-byte segments the object/payload needs (concrete); 0: <= 4 bytes */
#endif
#ifndef LOSE
#define LOSE 0          /* block download: which segment of every first try is lost (0 none) */
#endif
#ifndef BS
#define BS 2            /* block upload: block size requested in the initiate */
#endif
#ifndef FILL
#define FILL 0          /* downloads: bytes in the last segment (concrete, keeps every command byte concrete); 0: symbolic */
#endif
#define SCONC ((NSEG == 0) ? FILL : (7 * (NSEG - 1) + FILL))
#ifndef AK
#define AK {0}
#define AKN 0
#endif
#ifndef BS2
#define BS2 BS
#endif
#define SMIN ((NSEG == 0) ? 1 : ((NSEG == 1) ? 5 : (7 * (NSEG - 1) + 1)))
#define SMAX ((NSEG == 0) ? 4 : (7 * NSEG))
#ifndef UBL
#define UBL 4
#endif
#ifndef BSP
#define BSP 0
#endif

typedef struct { uint16_t idx; uint8_t sub; uint8_t w; } XMUX;
static const XMUX xt[] = {
    { 0x2100, 0, 1 }, { 0x2101, 0, 2 }, { 0x2102, 0, 4 }, { 0x2106, 0, 4 }, { 0x2112, 0, 2 }, { 0, 0, 0 },
    { 0x2110, 0, 0 }, { 0x2111, 0, 0 }
};
#define IDX xt[TGT].idx
#define SUB xt[TGT].sub

static uint8_t  f[8];
static uint32_t steps;

static void fz(void) { uint8_t i; for (i = 0; i < 8; i++) { f[i] = 0; } }
static void mux(void) { f[1] = (uint8_t)IDX; f[2] = (uint8_t)(IDX >> 8); f[3] = SUB; }
static void put32(uint32_t v) { f[4] = (uint8_t)v; f[5] = (uint8_t)(v >> 8); f[6] = (uint8_t)(v >> 16); f[7] = (uint8_t)(v >> 24); }
static uint32_t get32(const CO_IF_FRM *r) { return (uint32_t)r->Data[4] | ((uint32_t)r->Data[5] << 8) | ((uint32_t)r->Data[6] << 16) | ((uint32_t)r->Data[7] << 24); }
static void req(void)
{
    env_tx_n = 0;
    env_deliver(&node, 0x600 + OD_NODEID, 8, f);
    steps++;
}
#define R0 (env_tx[0])
static void expect_one(void)
{
    CHECK(env_tx_n == 1, "exactly one response");
    CHECK(R0.Identifier == 0x580 + OD_NODEID, "response on the server's response identifier");
    CHECK(R0.DLC == 8, "response has 8 data bytes");
}
static void expect_mux(void)
{
    CHECK(R0.Data[1] == (uint8_t)IDX && R0.Data[2] == (uint8_t)(IDX >> 8) && R0.Data[3] == SUB, "response names the requested object");
}

static uint8_t pay[D + 8];
static uint8_t dom0[D + 4];
static uint8_t got[D + 8];

void harness(void)
{
    CO_SDO  *s = &node.Sdo[0];
    uint32_t i;
    uint32_t slen;

    env_reset();
    od_defaults();
    app.b = ND_U8(); app.w = ND_U16(); app.l = ND_U32(); app.nl = ND_U32();
    ND_BUF(app.dom, D + 4);
#if (FILL != 0) && (TGT == 7) && (XF == 2 || XF == 4)
    slen = SCONC;                                /* concrete object size       */
#else
    slen = ND_RANGE(1, OD_STR_SIZE);
#endif
    for (i = 0; i < OD_STR_SIZE + 4; i++) {
        uint8_t c = (uint8_t)(ND_U8() | 1u);
        app.str[i] = (i < slen) ? c : 0;
    }
#if (FILL != 0) && (TGT == 6) && (XF == 2 || XF == 4)
    od_dom.Size = SCONC;                         /* concrete object size       */
#else
    od_dom.Size = ND_RANGE(1, D);                /* domain size symbolic       */
#endif
    node_boot();

#if PRE != 0
    {
        CO_OBJ *pt = od_find(xt[PTGT].idx, xt[PTGT].sub);
        CO_OBJ *alt = od_find(0x2102, 0);
        sdo_arbitrary_state(s, 0, (PRE - 1) % 5, pt);
        od_dom.Offset = ND_RANGE(0, D);
        ASSUME(od_dom.Offset <= od_dom.Size);
        od_str.Offset = ND_RANGE(0, OD_STR_SIZE);
        ASSUME(od_str.Offset <= slen);
        ASSUME(sdo_inv(s, 0, pt, alt));
#if PRE == 11
        /* nothing: a fresh transfer must succeed from every idle state */
#elif PRE <= 5
        fz(); f[0] = 0x80; mux(); put32(0x08000000);
        req();                                   /* client abort               */
        CHECK(env_tx_n <= 1, "abort is acknowledged at most once");
#else
        CONmtReset(&node.Nmt, CO_RESET_COM);
        env_tx_n = 0;
        CHECK(node.Nmt.Mode == CO_PREOP, "pre-operational after reset communication");
#endif
    }
#endif
    for (i = 0; i < D + 4; i++) { dom0[i] = app.dom[i]; }
    ND_BUF(pay, D + 8);

#if XF == 0
    /* ---------- expedited download + read back -------------------------- */
    {
        uint32_t val = ND_U32();
        uint8_t  sind = ND_U8() & 1;             /* size indicated?            */
        uint8_t  w = xt[TGT].w;
        uint32_t mask = (w == 4) ? 0xFFFFFFFFu : ((1u << (8 * w)) - 1u);
        uint32_t before_b = app.b, before_w = app.w, before_l = app.l, before_nl = app.nl;
        fz(); mux(); put32(val);
        f[0] = sind ? (uint8_t)(0x23 | ((4 - w) << 2)) : 0x22;
        req(); expect_one(); expect_mux();
        CHECK(R0.Data[0] == 0x60, "expedited download confirmed");
        CHECK(get32(&R0) == 0, "reserved bytes of the confirmation are zero");
        CHECK(s->Obj == 0, "server idle after expedited download");
        fz(); mux(); f[0] = 0x40;
        req(); expect_one(); expect_mux();
        CHECK(R0.Data[0] == (uint8_t)(0x43 | ((4 - w) << 2)), "expedited upload response with size");
        CHECK((get32(&R0) & mask) == (val & mask), "read back equals the value written");
        if (TGT != 0) { CHECK(app.b == before_b, "other objects untouched (8 bit)"); }
        if (TGT != 1) { CHECK(app.w == before_w, "other objects untouched (16 bit)"); }
        if (TGT != 2) { CHECK(app.l == before_l, "other objects untouched (32 bit)"); }
        if (TGT != 3) { CHECK(app.nl == before_nl, "other objects untouched (node-id relative)"); }
        if (TGT == 3) { CHECK(app.nl == val - OD_NODEID, "node-id relative entry stores value minus node id"); }
        COVER(sind == 0, "size not indicated");
    }
#elif XF == 1
    /* ---------- segmented download to the domain ------------------------ */
    {
        uint32_t S = (FILL != 0) ? SCONC : ND_RANGE(SMIN, SMAX);
        uint8_t  sind = ND_U8() & 1;
        uint8_t  t = 0;
        uint32_t seg;
        ASSUME(S <= od_dom.Size);
        fz(); mux(); f[0] = sind ? 0x21 : 0x20; put32(sind ? S : 0);
        req(); expect_one(); expect_mux();
        CHECK(R0.Data[0] == 0x60 && get32(&R0) == 0, "segmented download initiate confirmed");
        for (seg = 0; seg < ((NSEG == 0) ? 1 : NSEG); seg++) {
            uint32_t off = 7 * seg;
            {
                uint32_t n = ((S - off) > 7) ? 7 : (S - off);
                uint8_t  last = (off + n == S) ? 1 : 0;
                fz();
                f[0] = (uint8_t)((t << 4) | ((7 - n) << 1) | last);
                for (i = 0; i < 7; i++) { if (i < n) { f[1 + i] = pay[off + i]; } }
                req(); expect_one();
                CHECK(R0.Data[0] == (uint8_t)(0x20 | (t << 4)), "segment confirmed with the same toggle bit");
                t ^= 1;
            }
        }
        CHECK(s->Obj == 0 && s->Blk.State == BLK_IDLE, "server idle after the last segment");
        for (i = 0; i < D + 4; i++) {
            if (i < S) { CHECK(app.dom[i] == pay[i], "object holds exactly the transmitted bytes"); }
            else       { CHECK(app.dom[i] == dom0[i], "storage beyond the transmitted length untouched"); }
        }
        COVER(sind == 0, "size not indicated");
    }
#elif XF == 2
    /* ---------- segmented upload ---------------------------------------- */
    {
        uint32_t S = (TGT == 7) ? slen : od_dom.Size;
        uint8_t *src = (TGT == 7) ? app.str : app.dom;
        uint8_t  t = 0;
        uint32_t seg, cnt = 0;
        uint8_t  done = 0;
        ASSUME(S >= SMIN && S <= SMAX);
        fz(); mux(); f[0] = 0x40;
        req(); expect_one(); expect_mux();
        if (S <= 4) {
            CHECK(R0.Data[0] == (uint8_t)(0x43 | ((4 - S) << 2)), "short object answered expedited with its size");
            for (i = 0; i < 4; i++) { if (i < S) { CHECK(R0.Data[4 + i] == src[i], "expedited data equals the object"); } }
            done = 1; cnt = S;
        } else {
            CHECK(R0.Data[0] == 0x41 && get32(&R0) == S, "upload initiate announces the object size");
        }
        for (seg = 0; seg < NSEG; seg++) {
            if (!done) {
                uint8_t n, c;
                fz(); f[0] = (uint8_t)(0x60 | (t << 4));
                req(); expect_one();
                CHECK((R0.Data[0] & 0xE0) == 0x00 && ((R0.Data[0] >> 4) & 1) == t, "upload segment with the requested toggle bit");
                n = (uint8_t)(7 - ((R0.Data[0] >> 1) & 7));
                c = R0.Data[0] & 1;
                for (i = 0; i < 7; i++) { if (i < n && cnt + i < D + 8) { got[cnt + i] = R0.Data[1 + i]; } }
                cnt += n;
                t ^= 1;
                if (c) { done = 1; }
                CHECK(cnt <= S, "never more bytes than announced");
            }
        }
        CHECK(done, "transfer ends with the last-segment flag");
        CHECK(cnt == S, "client assembles exactly the announced number of bytes");
        if (S > 4) {
            for (i = 0; i < D; i++) { if (i < S) { CHECK(got[i] == src[i], "assembled bytes equal the object"); } }
        }
        CHECK(s->Obj == 0, "server idle after upload");
        for (i = 0; i < D + 4; i++) { CHECK(app.dom[i] == dom0[i], "object unchanged by upload"); }
    }
#elif XF == 3
    /* ---------- block download to the domain ---------------------------- */
    {
        uint32_t S = (FILL != 0) ? SCONC : ND_RANGE(SMIN, SMAX);
        uint8_t  sind = ND_U8() & 1;
        uint32_t total = (NSEG == 0) ? 1 : NSEG; /* segments of the transfer   */
        uint32_t sent = 0;                       /* segments acknowledged      */
        uint32_t blk;
        uint8_t  lose = LOSE;                    /* 0: nothing lost, k: k-th segment of every first try */
        ASSUME(S <= od_dom.Size);
        fz(); mux(); f[0] = sind ? 0xC2 : 0xC0; put32(sind ? S : 0);
        req(); expect_one(); expect_mux();
        CHECK(R0.Data[0] == 0xA0 && R0.Data[4] == SDO_N, "block download initiate answered with the block size");
        for (blk = 0; blk < 2 * ((((NSEG == 0) ? 1 : NSEG) + SDO_N - 1) / SDO_N); blk++) {
            if (sent < total) {
                uint32_t q, good = 0;
                uint32_t inblk = ((total - sent) > SDO_N) ? SDO_N : (total - sent);
                uint8_t  lost_here = ((blk % 2) == 0) && (lose >= 1) && (lose < inblk);   /* never the block's final segment: not recoverable without client time-out */
                for (q = 1; q <= SDO_N; q++) {
                    if (q <= inblk) {
                        uint32_t off = 7 * (sent + q - 1);
                        uint8_t  last = ((sent + q) == total) ? 0x80 : 0;
                        fz(); f[0] = (uint8_t)(q | last);
                        for (i = 0; i < 7; i++) { if (off + i < S) { f[1 + i] = pay[off + i]; } }
                        if (lost_here && (q == lose)) {
                            /* segment lost on the bus: nothing delivered */
                        } else {
                            req();
                            if (q < inblk) { CHECK(env_tx_n == 0, "no response inside a block"); }
                        }
                    }
                }
                good = lost_here ? (uint32_t)(lose - 1) : inblk;
                expect_one();
                CHECK(R0.Data[0] == 0xA2, "block acknowledged");
                CHECK(R0.Data[1] == good, "acknowledge names the last segment received in sequence");
                CHECK(R0.Data[2] == SDO_N, "next block size");
                sent += good;
            }
        }
        CHECK(sent == total, "all segments acknowledged");
        fz(); f[0] = (uint8_t)(0xC1 | ((7 * total - S) << 2));
        req(); expect_one();
        CHECK(R0.Data[0] == 0xA1, "end of block download confirmed");
        CHECK(s->Obj == 0 && s->Blk.State == BLK_IDLE, "server idle after block download");
        for (i = 0; i < D + 4; i++) {
            if (i < S) { CHECK(app.dom[i] == pay[i], "object holds exactly the transmitted bytes"); }
            else       { CHECK(app.dom[i] == dom0[i], "storage beyond the transmitted length untouched"); }
        }
        COVER(sind == 0, "size not indicated");
    }
#else
    /* ---------- block upload --------------------------------------------- */
    /* acknowledge pattern concrete (enumerated by the driver): AK = {k1,k2,..}
     * partial acknowledges for the first AKN blocks (k_i = number of segments
     * acknowledged), every later block is acknowledged completely.  BS is the
     * block size of the initiate, BS2 the one announced with every complete
     * acknowledge.  Object size (within its class), contents symbolic.      */
    {
        uint32_t S = (TGT == 7) ? slen : od_dom.Size;
        uint8_t *src = (TGT == 7) ? app.str : app.dom;
        static const uint8_t ak[] = AK;
        uint8_t  bs = BS;
        uint8_t  bs_hi = BS;                         /* largest block size the server may be using */
        uint32_t cnt = 0;                            /* bytes accepted by client  */
        uint32_t blk;
        uint8_t  fin = 0;                            /* final segment accepted    */
        uint8_t  lastn = 0;
        ASSUME(S >= SMIN && S <= SMAX);
        fz(); mux(); f[0] = 0xA0; f[4] = bs;
        req(); expect_one(); expect_mux();
        CHECK(R0.Data[0] == 0xC2 && get32(&R0) == S, "block upload initiate announces the object size");
        fz(); f[0] = 0xA3;
        req();
        for (blk = 0; blk < UBL; blk++) {
            if (!fin) {
                uint32_t ebs = (bs_hi > SDO_N) ? SDO_N : bs_hi;      /* server may clamp to its buffer */
                uint32_t nseg = env_tx_n;
                uint32_t k, q;
                uint8_t  nbs;
                CHECK(nseg >= 1 && nseg <= ebs, "block has between one and the requested number of segments");
                k = nseg;
                if (blk < AKN) { k = ak[blk]; }
                if (k > nseg) { k = nseg; }
                for (q = 0; q < SDO_N; q++) {
                    if (q < nseg) {
                        CHECK(env_tx[q].Identifier == 0x580 + OD_NODEID, "segment on the response identifier");
                        CHECK((env_tx[q].Data[0] & 0x7F) == q + 1, "sequence numbers count from 1");
                        if (q < k) {
                            uint8_t c = env_tx[q].Data[0] & 0x80;
                            for (i = 0; i < 7; i++) {
                                if (cnt + i < D + 8) { got[cnt + i] = env_tx[q].Data[1 + i]; }
                            }
                            if (c) {
                                fin = 1;
                                CHECK(q + 1 == nseg, "last-segment flag only on the final segment of a block");
                                CHECK(cnt + 7 >= S && cnt < S, "last-segment flag exactly on the segment that completes the object");
                                lastn = (uint8_t)(cnt + 7 - S);
                                cnt = S;
                            } else {
                                cnt += 7;
                                CHECK(cnt < S, "segments without last flag leave data to send");
                            }
                        }
                    }
                }
                /* block size: kept with a partial acknowledge (known finding F06
                 * otherwise), BS2 announced with a complete one */
                if (k < nseg) {
                    /* a block size announced inside a partial acknowledge: whether the server applies it to the
                     * repeated block is not constrained (DESIGN.md appendix B); the data must be exact either way */
                    nbs = (BSP != 0) ? BSP : bs;
                    bs_hi = (nbs > bs_hi) ? nbs : bs_hi;
                } else {
                    nbs = BS2;
                    bs_hi = nbs;
                }
                fz(); f[0] = 0xA2; f[1] = (uint8_t)k; f[2] = nbs;
                bs = nbs;
                req();
                if (fin) {
                    expect_one();
                    CHECK(R0.Data[0] == (uint8_t)(0xC1 | (lastn << 2)), "end of block upload with the number of unused bytes");
                }
            }
        }
        CHECK(fin, "transfer completes");
        fz(); f[0] = 0xA1;
        req();
        CHECK(env_tx_n == 0, "end confirmation is not answered");
        CHECK(s->Obj == 0 && s->Blk.State == BLK_IDLE, "server idle after block upload");
        for (i = 0; i < D; i++) { if (i < S) { CHECK(got[i] == src[i], "assembled bytes equal the object"); } }
        for (i = 0; i < D + 4; i++) { CHECK(app.dom[i] == dom0[i], "object unchanged by upload"); }
    }
#endif
    CHECK(env_fatal == 0, "no fatal error");
    CHECK(node.Error == CO_ERR_NONE, "no node error");
    COVER(1, "end");
}
