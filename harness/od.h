/* Template object dictionary + node set-up shared by the whole-node harnesses.
 * Feature macros (all default off):
 *   OD_EMCY  1003h (history depth OD_EMCY_H), 1014h, emergency table of CO_EMCY_N rows
 *   OD_SYNC  1005h, 1006h
 *   OD_HBC   1016h with OD_HBC_E entries (<= 3)
 *   OD_PARA  1010h / 1011h with OD_PARA_G groups (<= 3)
 *   OD_CSDO  1280h
 *   OD_RPDO  number of RPDO channels with parameter objects (0..2), 4 mapping slots each (OD_MAPS 8: channel 0 has 8)
 *   OD_TPDO  number of TPDO channels (0..2), 4 mapping slots each
 *   OD_DUMMY dummy mapping objects 0002h..0007h offered as mappable
 *   OD_APP   application objects 2100h.. (always on unless OD_NOAPP)
 * RAM values get their defaults in od_defaults(); harnesses overwrite them
 * with symbolic values before node_boot().                                   */
#ifndef VERIF_OD_H
#define VERIF_OD_H
#include "env.h"

#ifndef OD_RPDO
#define OD_RPDO 0
#endif
#ifndef OD_TPDO
#define OD_TPDO 0
#endif
#ifndef OD_MAPS
#define OD_MAPS 4
#endif
#ifndef OD_EMCY_H
#define OD_EMCY_H 2
#endif
#ifndef OD_HBC_E
#define OD_HBC_E 2
#endif
#ifndef OD_PARA_G
#define OD_PARA_G 2
#endif
#ifndef OD_DOM_SIZE
#define OD_DOM_SIZE 16
#endif
#ifndef OD_STR_SIZE
#define OD_STR_SIZE 12
#endif
#ifndef OD_TMR_N
#define OD_TMR_N 4
#endif
#ifndef OD_NODEID
#define OD_NODEID 5
#endif
#ifndef OD_FREQ
#define OD_FREQ 1000
#endif

/* ---- RAM ------------------------------------------------------------------ */
static uint8_t  v1001;
static uint16_t v1017;
static uint32_t v1200_1, v1200_2;
#if CO_SSDO_N > 1
static uint32_t v1201_1, v1201_2;
#endif
#ifdef OD_EMCY
static uint8_t  v1003_0;
static uint32_t v1003_1, v1003_2, v1003_3, v1003_4;
static uint32_t * const v1003p[4] = { &v1003_1, &v1003_2, &v1003_3, &v1003_4 };
#define V1003(i) (*v1003p[(i)])
static uint32_t v1014;
static CO_EMCY_TBL od_emcy_tbl[CO_EMCY_N];
#endif
#ifdef OD_SYNC
static uint32_t v1005, v1006;
#endif
#ifdef OD_HBC
static uint8_t   v1016_0;
/* separate objects, not an array: writes through a computed pointer into an array of
 * structs degrade to byte-level updates in cbmc (DESIGN.md §3 rule 4) */
static CO_HBCONS v1016_a, v1016_b, v1016_c;
static CO_HBCONS * const v1016p[3] = { &v1016_a, &v1016_b, &v1016_c };
#define v1016 (*v1016q)   /* poison: use V1016(i) */
#undef v1016
#define V1016(i) (*v1016p[(i)])
#endif
#ifdef OD_PARA
static CO_PARA  od_para_0, od_para_1, od_para_2;
static CO_PARA * const od_parap[3] = { &od_para_0, &od_para_1, &od_para_2 };
#define OD_PARA_(i) (*od_parap[(i)])
static uint8_t  od_para_ram[3][8];
static uint8_t  od_para_def[3][8];
#endif
#ifdef OD_CSDO
static uint32_t v1280_1, v1280_2;
static uint8_t  v1280_3;
#endif
/* every dictionary variable is a separate scalar object: for array elements other than the first
 * one cbmc does not fold `obj->Data != 0` (the integer-cast address) to a constant and the
 * type-size result - and everything behind it - turns symbolic (DESIGN.md §3) */
#if OD_RPDO > 0
static uint32_t v1400_1_0, v1400_1_1;
static uint8_t  v1400_2_0, v1400_2_1;
static uint8_t  v1600_0_0, v1600_0_1;
static uint32_t v1600_00, v1600_01, v1600_02, v1600_03, v1600_10, v1600_11, v1600_12, v1600_13;
static uint32_t * const v1400_1p[2] = { &v1400_1_0, &v1400_1_1 };
static uint8_t  * const v1400_2p[2] = { &v1400_2_0, &v1400_2_1 };
static uint8_t  * const v1600_0p[2] = { &v1600_0_0, &v1600_0_1 };
#if OD_MAPS > 4
static uint32_t v1600_04, v1600_05, v1600_06, v1600_07;      /* channel 0 only */
static uint32_t * const v1600p[2][8] = { { &v1600_00, &v1600_01, &v1600_02, &v1600_03, &v1600_04, &v1600_05, &v1600_06, &v1600_07 },
                                         { &v1600_10, &v1600_11, &v1600_12, &v1600_13, 0, 0, 0, 0 } };
#else
static uint32_t * const v1600p[2][4] = { { &v1600_00, &v1600_01, &v1600_02, &v1600_03 }, { &v1600_10, &v1600_11, &v1600_12, &v1600_13 } };
#endif
#define V1400_1(c) (*v1400_1p[(c)])
#define V1400_2(c) (*v1400_2p[(c)])
#define V1600_0(c) (*v1600_0p[(c)])
#define V1600(c, k) (*v1600p[(c)][(k)])
#endif
#if OD_TPDO > 0
static uint32_t v1800_1_0, v1800_1_1;
static uint8_t  v1800_2_0, v1800_2_1;
static uint16_t v1800_3_0, v1800_3_1;
static uint16_t v1800_5_0, v1800_5_1;
static uint8_t  v1A00_0_0, v1A00_0_1;
static uint32_t v1A00_00, v1A00_01, v1A00_02, v1A00_03, v1A00_10, v1A00_11, v1A00_12, v1A00_13;
static uint32_t * const v1800_1p[2] = { &v1800_1_0, &v1800_1_1 };
static uint8_t  * const v1800_2p[2] = { &v1800_2_0, &v1800_2_1 };
static uint16_t * const v1800_3p[2] = { &v1800_3_0, &v1800_3_1 };
static uint16_t * const v1800_5p[2] = { &v1800_5_0, &v1800_5_1 };
static uint8_t  * const v1A00_0p[2] = { &v1A00_0_0, &v1A00_0_1 };
#if OD_MAPS > 4
static uint32_t v1A00_04, v1A00_05, v1A00_06, v1A00_07;      /* channel 0 only */
static uint32_t * const v1A00p[2][8] = { { &v1A00_00, &v1A00_01, &v1A00_02, &v1A00_03, &v1A00_04, &v1A00_05, &v1A00_06, &v1A00_07 },
                                         { &v1A00_10, &v1A00_11, &v1A00_12, &v1A00_13, 0, 0, 0, 0 } };
#else
static uint32_t * const v1A00p[2][4] = { { &v1A00_00, &v1A00_01, &v1A00_02, &v1A00_03 }, { &v1A00_10, &v1A00_11, &v1A00_12, &v1A00_13 } };
#endif
#define V1800_1(c) (*v1800_1p[(c)])
#define V1800_2(c) (*v1800_2p[(c)])
#define V1800_3(c) (*v1800_3p[(c)])
#define V1800_5(c) (*v1800_5p[(c)])
#define V1A00_0(c) (*v1A00_0p[(c)])
#define V1A00(c, k) (*v1A00p[(c)][(k)])
#endif
#ifndef OD_NOAPP
/* a guard word before and after every application variable */
static struct {
    uint32_t g0; uint8_t  b;   uint32_t g1; uint16_t w;   uint32_t g2; uint32_t l;
    uint32_t g3; uint8_t  ab;  uint32_t g4; uint16_t aw;  uint32_t g5; uint32_t al;
    uint32_t g6; uint32_t nl;  uint32_t g7; uint8_t  ro;  uint32_t g8; uint8_t  wo;
    uint32_t g9; uint8_t  arr[2]; uint32_t g10;
    uint8_t  dom[OD_DOM_SIZE + 4]; uint32_t g11;
    uint8_t  str[OD_STR_SIZE + 4]; uint32_t g12;
} app;
static CO_OBJ_DOM od_dom = { 0, OD_DOM_SIZE, app.dom };
static CO_OBJ_STR od_str = { 0, app.str };
#endif

#ifdef OD_HIGH
static uint16_t od_high[2];
static uint8_t  od_high_b;
#endif
#ifdef OD_UABORT
extern const CO_OBJ_TYPE UTypeA, UTypeR;   /* application object types of sdo_uabort.c */
#endif
#define OD_ID(i,s,f)  CO_KEY((i),(s),(f))

/* ---- dictionary (sorted) -------------------------------------------------- */
static CO_OBJ od[] = {
#ifdef OD_DUMMY
    { OD_ID(0x0002, 0, (CO_OBJ_D_____ | CO_OBJ____PRW)), CO_TUNSIGNED8,  (CO_DATA)0 },
    { OD_ID(0x0003, 0, (CO_OBJ_D_____ | CO_OBJ____PRW)), CO_TUNSIGNED16, (CO_DATA)0 },
    { OD_ID(0x0004, 0, (CO_OBJ_D_____ | CO_OBJ____PRW)), CO_TUNSIGNED32, (CO_DATA)0 },
    { OD_ID(0x0005, 0, (CO_OBJ_D_____ | CO_OBJ____PRW)), CO_TUNSIGNED8,  (CO_DATA)0 },
    { OD_ID(0x0006, 0, (CO_OBJ_D_____ | CO_OBJ____PRW)), CO_TUNSIGNED16, (CO_DATA)0 },
    { OD_ID(0x0007, 0, (CO_OBJ_D_____ | CO_OBJ____PRW)), CO_TUNSIGNED32, (CO_DATA)0 },
#endif
    { OD_ID(0x1000, 0, CO_OBJ_D___R_), CO_TUNSIGNED32, (CO_DATA)0x00000191 },
    { OD_ID(0x1001, 0, CO_OBJ____PR_), CO_TUNSIGNED8,  (CO_DATA)&v1001 },
#ifdef OD_EMCY
    { OD_ID(0x1003, 0, CO_OBJ_____RW), CO_TEMCY_HIST, (CO_DATA)&v1003_0 },
    { OD_ID(0x1003, 1, CO_OBJ_____R_), CO_TEMCY_HIST, (CO_DATA)&v1003_1 },
#if OD_EMCY_H > 1
    { OD_ID(0x1003, 2, CO_OBJ_____R_), CO_TEMCY_HIST, (CO_DATA)&v1003_2 },
#endif
#if OD_EMCY_H > 2
    { OD_ID(0x1003, 3, CO_OBJ_____R_), CO_TEMCY_HIST, (CO_DATA)&v1003_3 },
#endif
#if OD_EMCY_H > 3
    { OD_ID(0x1003, 4, CO_OBJ_____R_), CO_TEMCY_HIST, (CO_DATA)&v1003_4 },
#endif
#endif
#ifdef OD_SYNC
    { OD_ID(0x1005, 0, CO_OBJ_____RW), CO_TSYNC_ID,    (CO_DATA)&v1005 },
    { OD_ID(0x1006, 0, CO_OBJ_____RW), CO_TSYNC_CYCLE, (CO_DATA)&v1006 },
#endif
#ifdef OD_PARA
    { OD_ID(0x1010, 0, CO_OBJ_D___R_), CO_TPARA_STORE, (CO_DATA)OD_PARA_G },
    { OD_ID(0x1010, 1, CO_OBJ_____RW), CO_TPARA_STORE, (CO_DATA)&od_para_0 },
#if OD_PARA_G > 1
    { OD_ID(0x1010, 2, CO_OBJ_____RW), CO_TPARA_STORE, (CO_DATA)&od_para_1 },
#endif
#if OD_PARA_G > 2
    { OD_ID(0x1010, 3, CO_OBJ_____RW), CO_TPARA_STORE, (CO_DATA)&od_para_2 },
#endif
    { OD_ID(0x1011, 0, CO_OBJ_D___R_), CO_TPARA_RESTORE, (CO_DATA)OD_PARA_G },
    { OD_ID(0x1011, 1, CO_OBJ_____RW), CO_TPARA_RESTORE, (CO_DATA)&od_para_0 },
#if OD_PARA_G > 1
    { OD_ID(0x1011, 2, CO_OBJ_____RW), CO_TPARA_RESTORE, (CO_DATA)&od_para_1 },
#endif
#if OD_PARA_G > 2
    { OD_ID(0x1011, 3, CO_OBJ_____RW), CO_TPARA_RESTORE, (CO_DATA)&od_para_2 },
#endif
#endif
#ifdef OD_EMCY
    { OD_ID(0x1014, 0, CO_OBJ__N__RW), CO_TEMCY_ID, (CO_DATA)&v1014 },
#endif
#ifdef OD_HBC
    { OD_ID(0x1016, 0, CO_OBJ_____R_), CO_THB_CONS, (CO_DATA)&v1016_0 },
    { OD_ID(0x1016, 1, CO_OBJ_____RW), CO_THB_CONS, (CO_DATA)&v1016_a },
#if OD_HBC_E > 1
    { OD_ID(0x1016, 2, CO_OBJ_____RW), CO_THB_CONS, (CO_DATA)&v1016_b },
#endif
#if OD_HBC_E > 2
    { OD_ID(0x1016, 3, CO_OBJ_____RW), CO_THB_CONS, (CO_DATA)&v1016_c },
#endif
#endif
    { OD_ID(0x1017, 0, CO_OBJ_____RW), CO_THB_PROD,    (CO_DATA)&v1017 },
    { OD_ID(0x1018, 0, CO_OBJ_D___R_), CO_TUNSIGNED8,  (CO_DATA)4 },
    { OD_ID(0x1018, 1, CO_OBJ_D___R_), CO_TUNSIGNED32, (CO_DATA)0x11111111 },
    { OD_ID(0x1018, 2, CO_OBJ_D___R_), CO_TUNSIGNED32, (CO_DATA)0x22222222 },
    { OD_ID(0x1018, 3, CO_OBJ_D___R_), CO_TUNSIGNED32, (CO_DATA)0x33333333 },
    { OD_ID(0x1018, 4, CO_OBJ_D___R_), CO_TUNSIGNED32, (CO_DATA)0x44444444 },
    { OD_ID(0x1200, 0, CO_OBJ_D___R_), CO_TUNSIGNED8,  (CO_DATA)2 },
    { OD_ID(0x1200, 1, CO_OBJ__N__RW), CO_TSDO_ID,     (CO_DATA)&v1200_1 },
    { OD_ID(0x1200, 2, CO_OBJ__N__RW), CO_TSDO_ID,     (CO_DATA)&v1200_2 },
#if CO_SSDO_N > 1
    { OD_ID(0x1201, 0, CO_OBJ_D___R_), CO_TUNSIGNED8,  (CO_DATA)2 },
    { OD_ID(0x1201, 1, CO_OBJ_____RW), CO_TSDO_ID,     (CO_DATA)&v1201_1 },
    { OD_ID(0x1201, 2, CO_OBJ_____RW), CO_TSDO_ID,     (CO_DATA)&v1201_2 },
#endif
#ifdef OD_CSDO
    { OD_ID(0x1280, 0, CO_OBJ_D___R_), CO_TUNSIGNED8,  (CO_DATA)3 },
    { OD_ID(0x1280, 1, CO_OBJ_____RW), CO_TSDO_ID,     (CO_DATA)&v1280_1 },
    { OD_ID(0x1280, 2, CO_OBJ_____RW), CO_TSDO_ID,     (CO_DATA)&v1280_2 },
    { OD_ID(0x1280, 3, CO_OBJ_____RW), CO_TUNSIGNED8,  (CO_DATA)&v1280_3 },
#endif
#if OD_RPDO > 0
    { OD_ID(0x1400, 0, CO_OBJ_D___R_), CO_TUNSIGNED8,  (CO_DATA)2 },
    { OD_ID(0x1400, 1, CO_OBJ__N__RW), CO_TPDO_ID,     (CO_DATA)&v1400_1_0 },
    { OD_ID(0x1400, 2, CO_OBJ_____RW), CO_TPDO_TYPE,   (CO_DATA)&v1400_2_0 },
#endif
#if OD_RPDO > 1
    { OD_ID(0x1401, 0, CO_OBJ_D___R_), CO_TUNSIGNED8,  (CO_DATA)2 },
    { OD_ID(0x1401, 1, CO_OBJ__N__RW), CO_TPDO_ID,     (CO_DATA)&v1400_1_1 },
    { OD_ID(0x1401, 2, CO_OBJ_____RW), CO_TPDO_TYPE,   (CO_DATA)&v1400_2_1 },
#endif
#if OD_RPDO > 0
    { OD_ID(0x1600, 0, CO_OBJ_____RW), CO_TPDO_NUM,    (CO_DATA)&v1600_0_0 },
    { OD_ID(0x1600, 1, CO_OBJ_____RW), CO_TPDO_MAP,    (CO_DATA)&v1600_00 },
    { OD_ID(0x1600, 2, CO_OBJ_____RW), CO_TPDO_MAP,    (CO_DATA)&v1600_01 },
    { OD_ID(0x1600, 3, CO_OBJ_____RW), CO_TPDO_MAP,    (CO_DATA)&v1600_02 },
    { OD_ID(0x1600, 4, CO_OBJ_____RW), CO_TPDO_MAP,    (CO_DATA)&v1600_03 },
#if OD_MAPS > 4
    { OD_ID(0x1600, 5, CO_OBJ_____RW), CO_TPDO_MAP,    (CO_DATA)&v1600_04 },
    { OD_ID(0x1600, 6, CO_OBJ_____RW), CO_TPDO_MAP,    (CO_DATA)&v1600_05 },
    { OD_ID(0x1600, 7, CO_OBJ_____RW), CO_TPDO_MAP,    (CO_DATA)&v1600_06 },
    { OD_ID(0x1600, 8, CO_OBJ_____RW), CO_TPDO_MAP,    (CO_DATA)&v1600_07 },
#endif
#endif
#if OD_RPDO > 1
    { OD_ID(0x1601, 0, CO_OBJ_____RW), CO_TPDO_NUM,    (CO_DATA)&v1600_0_1 },
    { OD_ID(0x1601, 1, CO_OBJ_____RW), CO_TPDO_MAP,    (CO_DATA)&v1600_10 },
    { OD_ID(0x1601, 2, CO_OBJ_____RW), CO_TPDO_MAP,    (CO_DATA)&v1600_11 },
    { OD_ID(0x1601, 3, CO_OBJ_____RW), CO_TPDO_MAP,    (CO_DATA)&v1600_12 },
    { OD_ID(0x1601, 4, CO_OBJ_____RW), CO_TPDO_MAP,    (CO_DATA)&v1600_13 },
#endif
#if OD_TPDO > 0
    { OD_ID(0x1800, 0, CO_OBJ_D___R_), CO_TUNSIGNED8,  (CO_DATA)5 },
    { OD_ID(0x1800, 1, CO_OBJ__N__RW), CO_TPDO_ID,     (CO_DATA)&v1800_1_0 },
    { OD_ID(0x1800, 2, CO_OBJ_____RW), CO_TPDO_TYPE,   (CO_DATA)&v1800_2_0 },
    { OD_ID(0x1800, 3, CO_OBJ_____RW), CO_TUNSIGNED16, (CO_DATA)&v1800_3_0 },
    { OD_ID(0x1800, 5, CO_OBJ_____RW), CO_TPDO_EVENT,  (CO_DATA)&v1800_5_0 },
#endif
#if OD_TPDO > 1
    { OD_ID(0x1801, 0, CO_OBJ_D___R_), CO_TUNSIGNED8,  (CO_DATA)5 },
    { OD_ID(0x1801, 1, CO_OBJ__N__RW), CO_TPDO_ID,     (CO_DATA)&v1800_1_1 },
    { OD_ID(0x1801, 2, CO_OBJ_____RW), CO_TPDO_TYPE,   (CO_DATA)&v1800_2_1 },
    { OD_ID(0x1801, 3, CO_OBJ_____RW), CO_TUNSIGNED16, (CO_DATA)&v1800_3_1 },
    { OD_ID(0x1801, 5, CO_OBJ_____RW), CO_TPDO_EVENT,  (CO_DATA)&v1800_5_1 },
#endif
#if OD_TPDO > 0
    { OD_ID(0x1A00, 0, CO_OBJ_____RW), CO_TPDO_NUM,    (CO_DATA)&v1A00_0_0 },
    { OD_ID(0x1A00, 1, CO_OBJ_____RW), CO_TPDO_MAP,    (CO_DATA)&v1A00_00 },
    { OD_ID(0x1A00, 2, CO_OBJ_____RW), CO_TPDO_MAP,    (CO_DATA)&v1A00_01 },
    { OD_ID(0x1A00, 3, CO_OBJ_____RW), CO_TPDO_MAP,    (CO_DATA)&v1A00_02 },
    { OD_ID(0x1A00, 4, CO_OBJ_____RW), CO_TPDO_MAP,    (CO_DATA)&v1A00_03 },
#if OD_MAPS > 4
    { OD_ID(0x1A00, 5, CO_OBJ_____RW), CO_TPDO_MAP,    (CO_DATA)&v1A00_04 },
    { OD_ID(0x1A00, 6, CO_OBJ_____RW), CO_TPDO_MAP,    (CO_DATA)&v1A00_05 },
    { OD_ID(0x1A00, 7, CO_OBJ_____RW), CO_TPDO_MAP,    (CO_DATA)&v1A00_06 },
    { OD_ID(0x1A00, 8, CO_OBJ_____RW), CO_TPDO_MAP,    (CO_DATA)&v1A00_07 },
#endif
#endif
#if OD_TPDO > 1
    { OD_ID(0x1A01, 0, CO_OBJ_____RW), CO_TPDO_NUM,    (CO_DATA)&v1A00_0_1 },
    { OD_ID(0x1A01, 1, CO_OBJ_____RW), CO_TPDO_MAP,    (CO_DATA)&v1A00_10 },
    { OD_ID(0x1A01, 2, CO_OBJ_____RW), CO_TPDO_MAP,    (CO_DATA)&v1A00_11 },
    { OD_ID(0x1A01, 3, CO_OBJ_____RW), CO_TPDO_MAP,    (CO_DATA)&v1A00_12 },
    { OD_ID(0x1A01, 4, CO_OBJ_____RW), CO_TPDO_MAP,    (CO_DATA)&v1A00_13 },
#endif
#ifndef OD_NOAPP
    { OD_ID(0x2100, 0, CO_OBJ____PRW), CO_TUNSIGNED8,  (CO_DATA)&app.b  },
    { OD_ID(0x2101, 0, CO_OBJ____PRW), CO_TUNSIGNED16, (CO_DATA)&app.w  },
    { OD_ID(0x2102, 0, CO_OBJ____PRW), CO_TUNSIGNED32, (CO_DATA)&app.l  },
    { OD_ID(0x2103, 0, CO_OBJ___APRW), CO_TUNSIGNED8,  (CO_DATA)&app.ab },
    { OD_ID(0x2104, 0, CO_OBJ___APRW), CO_TUNSIGNED16, (CO_DATA)&app.aw },
    { OD_ID(0x2105, 0, CO_OBJ___APRW), CO_TUNSIGNED32, (CO_DATA)&app.al },
    { OD_ID(0x2106, 0, CO_OBJ__N__RW), CO_TUNSIGNED32, (CO_DATA)&app.nl },
    { OD_ID(0x2107, 0, CO_OBJ_____R_), CO_TUNSIGNED8,  (CO_DATA)&app.ro },
    { OD_ID(0x2108, 0, CO_OBJ______W), CO_TUNSIGNED8,  (CO_DATA)&app.wo },
    { OD_ID(0x2109, 0, CO_OBJ_D___R_), CO_TUNSIGNED8,  (CO_DATA)2 },
    { OD_ID(0x2109, 1, CO_OBJ_____RW), CO_TUNSIGNED8,  (CO_DATA)&app.arr[0] },
    { OD_ID(0x2109, 2, CO_OBJ_____RW), CO_TUNSIGNED8,  (CO_DATA)&app.arr[1] },
    { OD_ID(0x2110, 0, CO_OBJ_____RW), CO_TDOMAIN,     (CO_DATA)&od_dom },
    { OD_ID(0x2111, 0, CO_OBJ_____R_), CO_TSTRING,     (CO_DATA)&od_str },
#endif
#ifdef OD_DN16
    { OD_ID(0x2112, 0, (CO_OBJ_D_____ | CO_OBJ__N____ | CO_OBJ_____RW)), CO_TUNSIGNED16, (CO_DATA)0x1234 },   /* 16 bit, direct storage, node-id relative */
#endif
#ifdef OD_UABORT
    { OD_ID(0x2200, 0, CO_OBJ_____RW), ((const CO_OBJ_TYPE *)&UTypeA), (CO_DATA)0 },
    { OD_ID(0x2201, 0, CO_OBJ_____RW), ((const CO_OBJ_TYPE *)&UTypeR), (CO_DATA)0 },
#endif
#ifdef OD_HIGH
    /* entries in the upper half of the index range (profile / network variables): index distance to the
     * communication objects above 8000h */
    { OD_ID(0xA100, 0, CO_OBJ_D___R_), CO_TUNSIGNED8,  (CO_DATA)2 },
    { OD_ID(0xA100, 1, CO_OBJ_____RW), CO_TUNSIGNED16, (CO_DATA)&od_high[0] },
    { OD_ID(0xA100, 2, CO_OBJ_____RW), CO_TUNSIGNED16, (CO_DATA)&od_high[1] },
    { OD_ID(0xFFFF, 0, CO_OBJ_____RW), CO_TUNSIGNED8, (CO_DATA)&od_high_b },
#endif
    CO_OBJ_DICT_ENDMARK
};
#define OD_LEN (sizeof(od) / sizeof(od[0]))

static CO_NODE      node;
static CO_TMR_MEM   od_tmr_mem[OD_TMR_N];
static uint8_t      od_sdo_buf[CO_SSDO_N][CO_SDO_BUF_BYTE];
static uint8_t      od_sdo_guard[8];
static CO_NODE_SPEC od_spec;

static CO_OBJ *od_find(uint16_t idx, uint8_t sub)
{
    uint32_t i;
    for (i = 0; i + 1 < OD_LEN; i++) {
        if (CO_GET_DEV(od[i].Key) == CO_DEV(idx, sub)) {
            return &od[i];
        }
    }
    return 0;
}

/* default RAM values: every service configured and enabled */
static void od_defaults(void)
{
    v1001 = 0;
    v1017 = 0;
    v1200_1 = 0x600; v1200_2 = 0x580;
#if CO_SSDO_N > 1
    v1201_1 = 0x640; v1201_2 = 0x5C0;
#endif
#ifdef OD_EMCY
    v1003_0 = 0; v1014 = 0x80;
#endif
#ifdef OD_SYNC
    v1005 = 0x80; v1006 = 0;
#endif
#ifdef OD_HBC
    v1016_0 = OD_HBC_E;
#endif
#ifdef OD_CSDO
    v1280_1 = 0x600; v1280_2 = 0x580; v1280_3 = 9;
#endif
#if OD_RPDO > 0
    V1400_1(0) = 0x200; V1400_2(0) = 254; V1600_0(0) = 0;
    V1400_1(1) = 0x300; V1400_2(1) = 254; V1600_0(1) = 0;
#endif
#if OD_TPDO > 0
    V1800_1(0) = 0x40000180; V1800_2(0) = 254; V1800_3(0) = 0; V1800_5(0) = 0; V1A00_0(0) = 0;
    V1800_1(1) = 0x40000280; V1800_2(1) = 254; V1800_3(1) = 0; V1800_5(1) = 0; V1A00_0(1) = 0;
#endif
}

static void node_init(void)
{
    od_spec.NodeId   = OD_NODEID;
    od_spec.Baudrate = 250000;
    od_spec.Dict     = od;
    od_spec.DictLen  = OD_LEN;
#ifdef OD_EMCY
    od_spec.EmcyCode = od_emcy_tbl;
#else
    od_spec.EmcyCode = 0;
#endif
    od_spec.TmrMem   = od_tmr_mem;
    od_spec.TmrNum   = OD_TMR_N;
    od_spec.TmrFreq  = OD_FREQ;
    od_spec.Drv      = &EnvDrv;
    od_spec.SdoBuf   = &od_sdo_buf[0][0];
    CONodeInit(&node, &od_spec);
}

/* init + start, then forget the boot-up frame */
static void node_boot(void)
{
    node_init();
    CONodeStart(&node);
    env_tx_n = 0;
}

#endif
