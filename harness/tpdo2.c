/* C12 tpdo2: two event-driven TPDOs that share a mapped asynchronous object.
 * A change of an object triggers EVERY TPDO it is mapped into, exactly once,
 * and no other; an unchanged value triggers nothing; application triggers hit
 * the named TPDO only.  Object values symbolic, order of operations ORD
 * enumerated by the driver.
 *   op 'a' write 2103h (mapped into both)  'w' write 2104h (TPDO 0 only)
 *      'l' write 2105h (TPDO 1 only)       'q' write 2103h with its current value
 *      '0' / '1' application trigger of TPDO 0 / 1     'V' invalidate TPDO 0 (SDO)  'U' validate it */
#define OD_SYNC
#define OD_TPDO 2
#include "od.h"
#ifndef ORD
#define ORD "awl"
#endif
static void nmt(uint8_t cs) { uint8_t d[8] = { 0, 0, 0, 0, 0, 0, 0, 0 }; d[0] = cs; d[1] = OD_NODEID; env_deliver(&node, 0x000, 2, d); }
static void sdo_wr(uint16_t idx, uint8_t sub, uint8_t w, uint32_t v)
{
    uint8_t d[8];
    d[0] = (uint8_t)(0x23 | ((4 - w) << 2)); d[1] = (uint8_t)idx; d[2] = (uint8_t)(idx >> 8); d[3] = sub;
    d[4] = (uint8_t)v; d[5] = (uint8_t)(v >> 8); d[6] = (uint8_t)(v >> 16); d[7] = (uint8_t)(v >> 24);
    env_deliver(&node, 0x600 + OD_NODEID, 8, d);
}
static uint32_t count_id(uint32_t id)
{
    uint32_t i, n = 0;
    for (i = 0; i < ENV_TX_MAX; i++) { if ((i < env_tx_n) && (env_tx[i].Identifier == id)) { n++; } }
    return n;
}
static void check_frames(void)
{
    uint32_t i;
    for (i = 0; i < ENV_TX_MAX; i++) {
        if (i < env_tx_n) {
            const CO_IF_FRM *f = &env_tx[i];
            if (f->Identifier == 0x180 + OD_NODEID) {
                CHECK(f->DLC == 3 && f->Data[0] == app.ab && f->Data[1] == (uint8_t)app.aw && f->Data[2] == (uint8_t)(app.aw >> 8), "TPDO 0 carries 2103h, 2104h");
            } else if (f->Identifier == 0x280 + OD_NODEID) {
                CHECK(f->DLC == 5 && f->Data[0] == app.ab && f->Data[1] == (uint8_t)app.al && f->Data[4] == (uint8_t)(app.al >> 24), "TPDO 1 carries 2103h, 2105h");
            }
        }
    }
}
void harness(void)
{
    static const char ord[] = ORD;
    uint32_t s;
    uint8_t  v0 = 1;

    env_reset();
    od_defaults();
    V1800_1(0) = 0x40000180; V1800_2(0) = 254; V1A00_0(0) = 2; V1A00(0, 0) = CO_LINK(0x2103, 0, 8); V1A00(0, 1) = CO_LINK(0x2104, 0, 16);
    V1800_1(1) = 0x40000280; V1800_2(1) = 255; V1A00_0(1) = 2; V1A00(1, 0) = CO_LINK(0x2103, 0, 8); V1A00(1, 1) = CO_LINK(0x2105, 0, 32);
    app.ab = ND_U8(); app.aw = ND_U16(); app.al = ND_U32();
    node_boot();
    CHECK(node.Error == CO_ERR_NONE, "configuration accepted");
    nmt(1);
    for (s = 0; s + 1 < sizeof(ord); s++) {
        char o = ord[s];
        uint32_t e0 = 0, e1 = 0, rsp = 0;
        env_tx_n = 0;
        if (o == 'a')      { uint8_t nv = ND_U8(); ASSUME(nv != app.ab); (void)CODictWrByte(&node.Dict, CO_DEV(0x2103, 0), nv); e0 = v0; e1 = 1; }
        else if (o == 'q') { (void)CODictWrByte(&node.Dict, CO_DEV(0x2103, 0), app.ab); }
        else if (o == 'w') { uint16_t nv = ND_U16(); ASSUME(nv != app.aw); (void)CODictWrWord(&node.Dict, CO_DEV(0x2104, 0), nv); e0 = v0; }
        else if (o == 'l') { uint32_t nv = ND_U32(); ASSUME(nv != app.al); (void)CODictWrLong(&node.Dict, CO_DEV(0x2105, 0), nv); e1 = 1; }
        else if (o == '0') { COTPdoTrigPdo(node.TPdo, 0); e0 = v0; }
        else if (o == '1') { COTPdoTrigPdo(node.TPdo, 1); e1 = 1; }
        else if (o == 'V') { sdo_wr(0x1800, 1, 4, 0xC0000180u + OD_NODEID); rsp = 1; v0 = 0; }
        else if (o == 'U') { sdo_wr(0x1800, 1, 4, 0x40000180u + OD_NODEID); rsp = 1; v0 = 1; }
        CHECK(count_id(0x180 + OD_NODEID) == e0, "TPDO 0 sent exactly once when one of its objects changed or it was triggered, not otherwise");
        CHECK(count_id(0x280 + OD_NODEID) == e1, "TPDO 1 sent exactly once when one of its objects changed or it was triggered, not otherwise");
        CHECK(env_tx_n == e0 + e1 + rsp, "no other frames");
        check_frames();
        CHECK(env_fatal == 0, "no fatal error");
    }
    COVER(1, "end");
}
