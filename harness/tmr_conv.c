/* C07 tmr_conv: COTmrGetTicks / COTmrGetMinTime against
 * ticks = time * freq / unit, stated without division (SAT-friendly):
 *   exact:  for every kref with kref*unit == time*freq : result == kref
 * MODE 0: every frequency 0..10000 Hz (complete for the freq <= unit branch),
 * MODE 1: frequency = q * unit, q in 1..QMAX (the freq > unit branch).
 * 32-bit symbolic frequencies do not finish on any back end (DESIGN.md §3). */
#include "env.h"
#ifndef MODE
#define MODE 0
#endif
#ifndef QMAX
#define QMAX 255
#endif
static CO_NODE node;

void harness(void)
{
#ifdef UNIT
    uint32_t unit = UNIT;
#else
    uint32_t unit = (ND_U8() & 1) ? CO_TMR_UNIT_1MS : CO_TMR_UNIT_100US;
#endif
    uint16_t t1   = ND_U16();
    uint16_t t2   = ND_U16();
    uint32_t kref = ND_U32();
    uint32_t q    = ND_U32();
    uint32_t freq;
    uint32_t k1, k2;
    uint16_t mt;

#if MODE == 0
    freq = ND_U32();
    ASSUME(freq <= 10000u);
#ifdef KF_TICKS_EXCL
    /* known finding F05 excluded: the frequency divides the unit or is a multiple of it */
    ASSUME((freq == 0) || ((uint64_t)freq * q == unit) || ((uint64_t)unit * q == freq));
#endif
#else
    ASSUME((q >= 1) && (q <= QMAX));
    freq = q * unit;
#endif
    node.Tmr.Freq = freq;
    node.Tmr.Node = &node;
    k1 = COTmrGetTicks(&node.Tmr, t1, unit);
    k2 = COTmrGetTicks(&node.Tmr, t2, unit);
    if (t1 <= t2) {
        CHECK(k1 <= k2, "time-to-tick conversion is monotonic");
    }
    if ((uint64_t)kref * unit == (uint64_t)t1 * freq) {
        CHECK(k1 == kref, "conversion is exact when the time is a whole number of ticks");
    }
    CHECK((freq != 0) || (k1 == 0), "no ticks without a clock");
    mt = COTmrGetMinTime(&node.Tmr, unit);
    CHECK((mt == 0) == (freq == 0), "minimal time is zero only without a clock");
    if (freq != 0) {
        CHECK(COTmrGetTicks(&node.Tmr, mt, unit) >= 1, "minimal time is at least one tick");
    }
#if MODE == 0
    COVER(freq < unit && freq > 0 && k1 > 0 && (uint64_t)kref * unit == (uint64_t)t1 * freq, "frequency below unit, whole number of ticks");
    COVER(freq == 0, "no clock");
#else
    COVER(q > 1 && t1 > 1, "frequency multiple of unit");
#endif
    COVER(1, "end");
}
