/* C15 emcy_step: one EMCY operation from an ARBITRARY consistent emergency
 * state (inductive step => every prefix of every call sequence).
 *   emergency table (register bit 0..7 and code per error), active-error bit
 *   field, history ring (fill level, position, contents), 1014h (incl. valid
 *   bit), manufacturer fields: symbolic.  CO_EMCY_N errors, history depth OD_EMCY_H.
 *   MODE 2 PRE-OP, 3 OPERATIONAL, 4 STOP
 *   OP   0 set(err, usr?)  1 clear(err)  2 reset(silent?)  3 SDO write 1003:0
 *        4 SDO read 1003:n  5 COEmcyGet / COEmcyCnt                         */
#define OD_EMCY
#include "od.h"
#ifndef MODE
#define MODE 2
#endif
#ifndef OP
#define OP 0
#endif
#define H  OD_EMCY_H
#define NE CO_EMCY_N

static uint8_t  m_act[NE];        /* model: error active                    */
static uint32_t m_hist[H];        /* model: history newest first            */
static uint8_t  m_hn;

static uint8_t m_reg(void)
{
    uint8_t r = 0, i;
    for (i = 0; i < NE; i++) { if (m_act[i]) { r |= (uint8_t)(1u << od_emcy_tbl[i].Reg); r |= 1; } }
    return r;
}
static uint8_t m_cnt(void)
{
    uint8_t c = 0, i;
    for (i = 0; i < NE; i++) { if (m_act[i]) { c++; } }
    return c;
}
/* history entry i (0 = newest) as the implementation stores it */
static uint32_t impl_hist(uint8_t i)
{
    CO_EMCY_HIST *h = &node.Emcy.Hist;
    int16_t sub = (int16_t)h->Off - (int16_t)i;
    if (sub < 1) { sub = (int16_t)(sub + h->Max); }
    return V1003((sub - 1) % H);
}
static void check_state(void)
{
    uint8_t i, k;
    CO_EMCY *e = &node.Emcy;
    for (i = 0; i < NE; i++) {
        CHECK(COEmcyGet(e, i) == (int16_t)m_act[i], "error state equals the reference model");
    }
    CHECK(v1001 == m_reg(), "error register: bit k set iff an active error belongs to class k, bit 0 iff any error is active");
    CHECK(COEmcyCnt(e) == (int16_t)m_cnt(), "number of active errors exact");
    for (k = 0; k < 8; k++) {
        uint8_t c = 0;
        for (i = 0; i < NE; i++) { if (m_act[i] && od_emcy_tbl[i].Reg == k) { c++; } }
        CHECK(e->Cnt[k] == c, "per-class counter consistent (invariant)");
    }
    CHECK(e->Hist.Max == H && e->Hist.Num == m_hn && v1003_0 == m_hn, "history count in 1003h:0");
    CHECK((e->Hist.Num < H) ? (e->Hist.Off == e->Hist.Num) : (e->Hist.Off >= 1 && e->Hist.Off <= H), "history ring position consistent (invariant)");
    for (i = 0; i < H; i++) {
        if (i < m_hn) { CHECK(impl_hist(i) == m_hist[i], "history lists the most recent activations newest first"); }
    }
}

void harness(void)
{
    CO_EMCY *e = &node.Emcy;
    uint8_t  i, k;
    uint8_t  allowed = (MODE == 2) || (MODE == 3);
    uint32_t cobid;
    uint8_t  valid;
    uint8_t  d[8];

    env_reset();
    od_defaults();
#if NE > 8
    /* large tables (several status bytes): classes and codes concrete, the active set stays symbolic */
    for (i = 0; i < NE; i++) { od_emcy_tbl[i].Reg = (uint8_t)((i * 3u + 1u) & 7u); od_emcy_tbl[i].Code = (uint16_t)(0x1000u + 0x111u * i); }
#else
    for (i = 0; i < NE; i++) { od_emcy_tbl[i].Reg = ND_U8() & 7; od_emcy_tbl[i].Code = ND_U16(); }
#endif
    node_boot();
#if MODE == 3
    CONmtSetMode(&node.Nmt, CO_OPERATIONAL);
#elif MODE == 4
    CONmtSetMode(&node.Nmt, CO_STOP);
#endif
    CHECK(node.Error == CO_ERR_NONE && e->Hist.Max == H, "configuration accepted");

    /* ---- arbitrary consistent state ---- */
    for (k = 0; k < 8; k++) { e->Cnt[k] = 0; }
    for (i = 0; i < (NE + 7) / 8; i++) { e->Err[i] = 0; }
    for (i = 0; i < NE; i++) {
        m_act[i] = ND_U8() & 1;
        if (m_act[i]) { e->Err[i >> 3] |= (uint8_t)(1u << (i & 7)); e->Cnt[od_emcy_tbl[i].Reg]++; }
    }
    v1001 = m_reg();
#ifdef HNUM
    /* ring fill level and position concrete (enumerated): keeps the dictionary
     * look-up of the written history entry concrete */
    m_hn = HNUM;
    e->Hist.Num = m_hn; v1003_0 = m_hn;
    e->Hist.Off = HOFF;
#else
    m_hn = (uint8_t)ND_RANGE(0, H);
    e->Hist.Num = m_hn; v1003_0 = m_hn;
    e->Hist.Off = (m_hn < H) ? m_hn : (uint8_t)ND_RANGE(1, H);
#endif
    for (i = 0; i < H; i++) { V1003(i) = ND_U32(); }
    for (i = 0; i < H; i++) { if (i < m_hn) { m_hist[i] = impl_hist(i); } }
    v1014 = ND_U32();
    ASSUME((v1014 & 0x7FFFF800u) == 0);             /* 11-bit identifier, valid bit free */
    ASSUME((v1014 & 0x7FFu) + OD_NODEID <= 0x7FFu);
    cobid = v1014 + OD_NODEID;                      /* 1014h is node-id relative */
    valid = ((cobid & 0x80000000u) == 0);
    check_state();                                  /* the constructed state is consistent */
    env_tx_n = 0;

#if OP == 0
    {
        uint8_t     err = ND_U8();
        uint8_t     use = ND_U8() & 1;
        CO_EMCY_USR usr;
        uint8_t     x = (err >= NE) ? (NE - 1) : err;
        uint8_t     was = m_act[x];
        usr.Hist = ND_U16(); ND_BUF(usr.Emcy, 5);
        COEmcySet(e, err, use ? &usr : 0);
        if (!was) {
            uint32_t hv = (uint32_t)od_emcy_tbl[x].Code | (use ? ((uint32_t)usr.Hist << 16) : 0);
            m_act[x] = 1;
            for (i = H - 1; i > 0; i--) { m_hist[i] = m_hist[i - 1]; }
            m_hist[0] = hv;
            if (m_hn < H) { m_hn++; }
            if (allowed && valid) {
                CHECK(env_tx_n == 1, "one EMCY frame per activation");
                CHECK(env_tx[0].Identifier == (cobid & 0x7FF) && env_tx[0].DLC == 8, "EMCY identifier from 1014h");
                CHECK(env_tx[0].Data[0] == (uint8_t)od_emcy_tbl[x].Code && env_tx[0].Data[1] == (uint8_t)(od_emcy_tbl[x].Code >> 8), "EMCY carries the error code");
                CHECK(env_tx[0].Data[2] == m_reg(), "EMCY carries the updated error register");
                for (i = 0; i < 5; i++) { CHECK(env_tx[0].Data[3 + i] == (use ? usr.Emcy[i] : 0), "EMCY carries the manufacturer bytes"); }
            } else {
                CHECK(env_tx_n == 0, "no EMCY frame while 1014h is invalid or the NMT state forbids");
            }
        } else {
            CHECK(env_tx_n == 0, "setting an active error again changes nothing");
        }
        COVER(!was && use, "activation with manufacturer fields");
        COVER(!was && m_hn == H && e->Hist.Off == 1, "history wrapped");
        COVER(err >= NE, "error number beyond the table");
    }
#elif OP == 1
    {
        uint8_t err = ND_U8();
        uint8_t x = (err >= NE) ? (NE - 1) : err;
        uint8_t was = m_act[x];
        COEmcyClr(e, err);
        if (was) {
            m_act[x] = 0;
            if (allowed && valid) {
                CHECK(env_tx_n == 1 && env_tx[0].Data[0] == 0 && env_tx[0].Data[1] == 0, "one EMCY frame with code 0000h per deactivation");
                CHECK(env_tx[0].Data[2] == m_reg(), "EMCY carries the updated error register");
                CHECK(env_tx[0].Identifier == (cobid & 0x7FF), "EMCY identifier from 1014h");
            } else {
                CHECK(env_tx_n == 0, "no EMCY frame while 1014h is invalid or the NMT state forbids");
            }
        } else {
            CHECK(env_tx_n == 0, "clearing an inactive error changes nothing");
        }
        COVER(was && m_reg() != 0, "class still active after clear");
    }
#elif OP == 2
    {
        uint8_t silent = ND_U8() & 1;
        uint8_t n = 0;
        uint8_t exp = (silent || !(allowed && valid)) ? 0 : m_cnt();
        COEmcyReset(e, silent);
        for (i = 0; i < NE; i++) {
            if (m_act[i]) {
                m_act[i] = 0;
                if (exp) {
                    if (n < ENV_TX_MAX) { CHECK(env_tx[n].Data[0] == 0 && env_tx[n].Data[1] == 0 && env_tx[n].Data[2] == m_reg(), "reset sends one clear frame per active error with the register after that clear"); }
                    n++;
                }
            }
        }
        CHECK(env_tx_n == exp, "reset: one frame per active error, none when silent");
        COVER(!silent && exp > 1, "several errors reset");
    }
#elif OP == 3
    {
        uint8_t val = ND_U8();
        d[0] = 0x2F; d[1] = 0x03; d[2] = 0x10; d[3] = 0x00; d[4] = val; d[5] = 0; d[6] = 0; d[7] = 0;
        env_deliver(&node, 0x600 + OD_NODEID, 8, d);
        if (allowed) {
            CHECK(env_tx_n == 1, "SDO answered");
            if (val == 0) {
                CHECK(env_tx[0].Data[0] == 0x60, "writing 0 to 1003h:0 accepted");
                m_hn = 0;
            } else {
                CHECK(env_tx[0].Data[0] == 0x80 && env_tx[0].Data[4] == 0x30 && env_tx[0].Data[5] == 0x00 && env_tx[0].Data[6] == 0x09 && env_tx[0].Data[7] == 0x06,
                      "any other value refused (0609 0030h)");
            }
        }
        COVER(val == 0 && allowed, "history cleared");
    }
#elif OP == 4
    {
        uint8_t n = (uint8_t)ND_RANGE(1, H);
        d[0] = 0x40; d[1] = 0x03; d[2] = 0x10; d[3] = n; d[4] = 0; d[5] = 0; d[6] = 0; d[7] = 0;
        env_deliver(&node, 0x600 + OD_NODEID, 8, d);
        if (allowed && (n <= m_hn)) {
            uint32_t v = (uint32_t)env_tx[0].Data[4] | ((uint32_t)env_tx[0].Data[5] << 8) | ((uint32_t)env_tx[0].Data[6] << 16) | ((uint32_t)env_tx[0].Data[7] << 24);
            CHECK(env_tx_n == 1 && env_tx[0].Data[0] == 0x43, "history entry readable");
            CHECK(v == m_hist[n - 1], "1003h:n is the n-th most recent activation");
        }
        COVER(allowed && n <= m_hn && n > 1, "older entry read");
    }
#else
    {
        uint8_t err = ND_U8();
        uint8_t x = (err >= NE) ? (NE - 1) : err;
        CHECK(COEmcyGet(e, err) == (int16_t)m_act[x], "COEmcyGet");
        CHECK(COEmcyCnt(e) == (int16_t)m_cnt(), "COEmcyCnt");
    }
#endif
    check_state();
    CHECK(env_fatal == 0, "no fatal error");
    COVER(m_cnt() >= 2 && od_emcy_tbl[0].Reg == od_emcy_tbl[1].Reg && m_act[0] && m_act[1], "two active errors share a class");
    COVER(1, "end");
}
