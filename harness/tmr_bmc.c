/* C07 / C08 tmr_bmc: the real co_tmr.c against a lock-step reference model.
 *
 *  P      pool size (blocks are separate objects through the pool hook)
 *  K      number of operations; kind and arguments of every operation symbolic
 *  TMAX   largest start/cycle time drawn (ticks)
 *  ISR    0: C07 - operations {create, delete, tick(service), process}
 *         1: C08 exact  - additionally the tick service may run (symbolic
 *            choice) before every COTmrLock and after every COTmrUnlock of
 *            create/delete; process may be deferred arbitrarily; exact model
 *         2: C08 weak   - preemption also inside COTmrProcess (at most one
 *            service call per process call, at any of its lock points); oracle is
 *            safety + pool conservation + never after confirmed delete +
 *            one-shot at most once + nothing lost after a final flush
 *         3: as 2, but the service preempts ONLY inside COTmrProcess (keeps a pool of 2 within reach)
 *  OPSEQ  optional: {k0,k1,...} concrete operation kinds (the driver then
 *         enumerates every kind sequence; arguments stay symbolic)
 *  FIRST  optional: kind of the first operation (sharding)
 */
#include "env.h"

#ifndef P
#define P 2
#endif
#ifndef K
#define K 3
#endif
#ifndef TMAX
#define TMAX 7
#endif
#ifndef ISR
#define ISR 0
#endif
#define NT K                       /* at most K creations */

static CO_NODE    node;
static CO_TMR_MEM mem[P];

/* ---- reference model ------------------------------------------------------ */
typedef struct {
    uint8_t  live;      /* slot in use                                       */
    uint8_t  pend;      /* fell due, waiting for process                     */
    int16_t  id;        /* id handed out by the implementation               */
    uint32_t remain;    /* ticks until due (armed only)                      */
    uint32_t period;    /* 0: one-shot                                       */
    uint32_t fired;     /* expected number of callback runs                  */
    uint8_t  deleted;   /* deletion confirmed                                */
    uint32_t fired_at_delete;
} MTMR;
static MTMR     m[NT];
static uint32_t m_n;              /* creations so far                        */
static uint32_t fired[NT];        /* real callback counts                    */
static uint32_t cb_unknown;

static void cb(void *para)
{
    uint32_t i;
    for (i = 0; i < NT; i++) {
        if (para == (void *)&fired[i]) {
            fired[i]++;
            return;
        }
    }
    cb_unknown++;
}

static uint32_t m_live(void)
{
    uint32_t i, n = 0;
    for (i = 0; i < NT; i++) { if (m[i].live) { n++; } }
    return n;
}

static void m_tick(void)
{
    uint32_t i;
    for (i = 0; i < NT; i++) {
        if (m[i].live && !m[i].pend) {
            m[i].remain--;
            if (m[i].remain == 0) {
                m[i].pend = 1;
            }
        }
    }
}

static void m_process(void)
{
    uint32_t i;
    for (i = 0; i < NT; i++) {
        if (m[i].live && m[i].pend) {
            m[i].fired++;
            m[i].pend = 0;
            if (m[i].period == 0) {
                m[i].live = 0;
            } else {
                m[i].remain = m[i].period;
            }
        }
    }
}

/* ---- preemption ----------------------------------------------------------- */
#if ISR != 0
/* at every lock / unlock point of COTmrProcess the event pool is complete: the event being processed is already back
 * in the free list (its detached action chain is private to the processing step, so only events are counted here) */
static void check_events(void)
{
    CO_TMR *t = &node.Tmr; CO_TMR_TIME *e; uint32_t ev = 0, i;
    for (e = t->Free, i = 0; (e != 0) && (i <= P); e = e->Next, i++) { ev++; }
    for (e = t->Use, i = 0; (e != 0) && (i <= P); e = e->Next, i++) { ev++; }
    for (e = t->Elapsed, i = 0; (e != 0) && (i <= P); e = e->Next, i++) { ev++; }
    CHECK(ev == P, "event pool conserved at every preemption point inside the processing step");
}
#ifndef NPRE
#define NPRE 24
#endif
static uint8_t  pre_flag[NPRE];
static uint32_t pre_k;
static uint8_t  in_process;
static uint32_t pre_ticks;
static void do_isr_tick(void)
{
    env_preempt_on = 0;            /* the service itself takes no lock        */
    (void)COTmrService(&node.Tmr);
    m_tick();
    pre_ticks++;
    env_preempt_on = 1;
}
void env_preempt_point(void)
{
    uint8_t f = 0;
#if ISR == 1
    if (in_process) { return; }
#endif
#if ISR == 3
    if (!in_process) { return; }     /* preemption only inside COTmrProcess */
#endif
    if (pre_k < NPRE) { f = pre_flag[pre_k]; }
    pre_k++;
#if ISR >= 2
    /* inside one process call the service preempts at most once (any point) */
    if (in_process) {
        if (in_process > 1) { f = 0; }
        if (f) { in_process = 2; }
    }
#endif
    if (f) { do_isr_tick(); }
#if ISR >= 2
    if (in_process) { check_events(); }
#endif
}
#endif

/* ---- structural walk: pool conservation ---------------------------------- */
static void check_pools(void)
{
    CO_TMR        *t = &node.Tmr;
    CO_TMR_TIME   *e;
    CO_TMR_ACTION *a;
    uint32_t ev = 0, ac = 0, i, j;

    for (e = t->Free, i = 0; (e != 0) && (i <= P); e = e->Next, i++) { ev++; }
    CHECK(e == 0, "free event list is finite");
    for (e = t->Use, i = 0; (e != 0) && (i <= P); e = e->Next, i++) {
        ev++;
        CHECK(e->Action != 0, "pending event carries at least one action");
        for (a = e->Action, j = 0; (a != 0) && (j <= P); a = a->Next, j++) { ac++; }
        CHECK(a == 0, "action chain is finite");
    }
    CHECK(e == 0, "pending event list is finite");
    for (e = t->Elapsed, i = 0; (e != 0) && (i <= P); e = e->Next, i++) {
        ev++;
        for (a = e->Action, j = 0; (a != 0) && (j <= P); a = a->Next, j++) { ac++; }
        CHECK(a == 0, "elapsed action chain is finite");
    }
    CHECK(e == 0, "elapsed event list is finite");
    for (a = t->Acts, j = 0; (a != 0) && (j <= P); a = a->Next, j++) { ac++; }
    CHECK(a == 0, "free action list is finite");
    CHECK(ev == P, "event pool conserved: free + pending + elapsed == capacity");
    CHECK(ac == P, "action pool conserved: free + pending + elapsed == capacity");
}

/* ---- due times: the delta list must encode exactly the model's remaining ticks ------------
 * (head event: the running hardware counter; every later event: plus the deltas up to it).
 * A callback that runs late or early shows here on the very step that shifted it, not only
 * when the action finally falls due. */
#if ISR == 0
static void check_due(void)
{
    CO_TMR        *t = &node.Tmr;
    CO_TMR_TIME   *e;
    CO_TMR_ACTION *a;
    uint32_t i, j, k;
    for (k = 0; k < NT; k++) {
        if (m[k].live) {
            uint32_t acc = env_tmr_counter, found = 0, due = 0;
            for (e = t->Use, i = 0; (e != 0) && (i <= P); e = e->Next, i++) {
                if (i > 0) { acc += e->Delta; }
                for (a = e->Action, j = 0; (a != 0) && (j <= P); a = a->Next, j++) {
                    if ((int16_t)a->Id == m[k].id) { found++; due = acc; }
                }
            }
            if (!m[k].pend) {
                CHECK(found == 1, "a live action that is not yet due hangs on exactly one pending event");
                CHECK(due == m[k].remain, "the pending lists encode exactly the ticks until the action is due");
            } else {
                uint32_t el = 0;
                for (e = t->Elapsed, i = 0; (e != 0) && (i <= P); e = e->Next, i++) {
                    for (a = e->Action, j = 0; (a != 0) && (j <= P); a = a->Next, j++) {
                        if ((int16_t)a->Id == m[k].id) { el++; }
                    }
                }
                CHECK(found == 0 && el == 1, "an action that fell due waits on the elapsed list exactly once");
            }
        }
    }
}
#endif

static void check_counts(void)
{
    uint32_t i;
    for (i = 0; i < NT; i++) {
#if ISR >= 2
        CHECK(!(m[i].deleted) || (fired[i] == m[i].fired_at_delete), "no callback after confirmed deletion");
        CHECK(!(i < m_n && m[i].period == 0) || (fired[i] <= 1), "one-shot action runs at most once");
#else
        CHECK(fired[i] == m[i].fired, "callback count equals the reference model");
#endif
    }
    CHECK(cb_unknown == 0, "callback parameter is the one given at creation");
    CHECK(env_fatal == 0, "no fatal error");
    CHECK(env_lock_err == 0, "lock/unlock strictly paired");
}

void harness(void)
{
    uint32_t s, i;
    uint8_t  op[K];
    uint32_t a1[K], a2[K];

    env_reset();
    node.If.Drv = &EnvDrv;
    COIfInit(&node.If, &node, 1000);
    COTmrInit(&node.Tmr, &node, mem, P, 1000);
    for (i = 0; i < NT; i++) { m[i].id = -1; }

    for (s = 0; s < K; s++) {
#ifdef OPSEQ
        static const uint8_t opk[K] = OPSEQ;     /* kinds enumerated by the driver */
        op[s] = opk[s];
#else
        op[s] = ND_U8() & 3;
#endif
        a1[s] = ND_RANGE(0, TMAX);
#ifdef ONESHOT
        a2[s] = 0;                               /* one-shot actions only */
#else
        a2[s] = ND_RANGE(0, TMAX);
#endif
    }
#ifdef FIRST
    ASSUME(op[0] == FIRST);
#endif
#if defined(SECOND) && (K > 1)
    ASSUME(op[1] == SECOND);
#endif
#if ISR != 0
    for (i = 0; i < NPRE; i++) { pre_flag[i] = ND_U8() & 1; }
    env_preempt_on = 1;
#endif

    for (s = 0; s < K; s++) {
        if (op[s] == 0) {
            /* ---------------- create(start, cycle) ---------------- */
            uint32_t start = a1[s], cycle = a2[s];
            uint32_t live_before = m_live();
            int16_t  id;
#if ISR != 0
            uint32_t t0 = pre_ticks, k0 = pre_k;
#endif
            id = COTmrCreate(&node.Tmr, start, cycle, cb, &fired[m_n]);
            if ((start == 0) && (cycle == 0)) {
                CHECK(id < 0, "create fails when both times are zero");
            }
#if ISR == 0
            else if (live_before >= P) {
                CHECK(id < 0, "create fails when no slot is free");
            } else {
                CHECK(id >= 0, "create succeeds when a slot is free and a time is given");
            }
#else
            /* a preempting tick cannot free a slot (only process does) */
            else if (live_before >= P) {
                CHECK(id < 0, "create fails when no slot is free");
            } else {
                CHECK(id >= 0, "create succeeds when a slot is free and a time is given");
            }
#endif
            if (id >= 0) {
                CHECK(id < P, "id within the pool");
                for (i = 0; i < NT; i++) {
                    CHECK(!(m[i].live && m[i].id == id), "id not in use by another live action");
                }
                m[m_n].live   = 1;
                m[m_n].pend   = 0;
                m[m_n].id     = id;
                m[m_n].remain = (start == 0) ? cycle : start;
                m[m_n].period = cycle;
#if ISR != 0
                /* a tick served after the unlock of this very call already
                 * counts for the new action (at most one: after-unlock point) */
                (void)t0;
                if ((k0 + 1 < NPRE) && (pre_flag[k0 + 1] != 0)) {
                    m[m_n].remain--;
                    if (m[m_n].remain == 0) { m[m_n].pend = 1; }
                }
#endif
                m_n++;
            }
        } else if (op[s] == 1) {
            /* ---------------- delete(id) -------------------------- */
            int16_t id = (int16_t)((int32_t)a1[s] - 1);       /* -1 .. TMAX-1 */
            int16_t r;
            uint32_t hit = NT;
#if ISR != 0
            uint32_t k0 = pre_k;
            uint8_t  pend_before[NT];
            for (i = 0; i < NT; i++) { pend_before[i] = m[i].pend; }
#endif
            r = COTmrDelete(&node.Tmr, id);
            for (i = 0; i < NT; i++) {
                if (m[i].live && (m[i].id == id)) { hit = i; }
            }
            if (hit < NT) {
                CHECK(r == 0, "delete of a live action is confirmed");
                m[hit].live    = 0;
                m[hit].pend    = 0;
                m[hit].deleted = 1;
                m[hit].fired_at_delete = fired[hit];
            } else {
                CHECK(r < 0, "delete of an unknown or free id is refused");
            }
        } else if (op[s] == 2) {
            /* ---------------- tick (service) ---------------------- */
#if ISR != 0
            env_preempt_on = 0;
#endif
            (void)COTmrService(&node.Tmr);
            m_tick();
#if ISR != 0
            env_preempt_on = 1;
#endif
        } else {
            /* ---------------- process ----------------------------- */
#if ISR != 0
            in_process = 1;
#endif
            COTmrProcess(&node.Tmr);
#if ISR != 0
            in_process = 0;
#endif
#if ISR < 2
            m_process();
#else
            /* weak oracle: resynchronise the bookkeeping needed for create/delete predictions */
            for (i = 0; i < NT; i++) {
                if (m[i].live && m[i].period == 0 && fired[i] > 0) { m[i].live = 0; }
            }
#endif
        }
        check_counts();
        check_pools();
#if ISR == 0
        check_due();
#endif
    }
#if ISR >= 2
    /* final flush without preemption: nothing may be lost */
    env_preempt_on = 0;
    for (i = 0; i < TMAX + 1; i++) {
        (void)COTmrService(&node.Tmr);
        COTmrProcess(&node.Tmr);
    }
    for (i = 0; i < NT; i++) {
        if ((i < m_n) && !m[i].deleted) {
            if (m[i].period == 0) {
                CHECK(fired[i] == 1, "one-shot action that was never deleted runs exactly once");
            } else {
                CHECK(fired[i] >= 1, "cyclic action that was never deleted is not lost");
            }
        }
    }
    check_pools();
#endif
#if P > 1
    COVER(m_n >= 2 && m[0].live && m[1].live && m[0].remain == m[1].remain && !m[0].pend, "two actions due on the same tick");
#endif
    COVER(m_n >= 1 && m[0].fired >= 1 && m[0].period != 0, "cyclic action fired");
    COVER(m_n >= 1 && m[0].deleted, "deleted");
#if ISR != 0
    COVER(pre_ticks > 0, "preempting tick happened");
#endif
    COVER(1, "end");
}
