/* C16 sync_step
 *  OP 0  SDO write to 1005h, OP 1 SDO write to 1006h: stored 1005h / 1006h,
 *        written value and a left-over node error symbolic; timer frequency
 *        OD_FREQ in {100, 1000, 1000000}.  Verdict, stored value and producer
 *        state against the write rules.
 *  OP 2  identifier match: COSyncUpdate with symbolic cached 1005h and a
 *        symbolic frame identifier.
 *  OP 3  one SYNC through CONodeProcess in mode MODE with two synchronous
 *        TPDOs (types and counters symbolic): every counter advances once,
 *        a TPDO of type n is sent on exactly every n-th SYNC.              */
#define OD_SYNC
#ifndef OD_TPDO
#define OD_TPDO 2
#endif
#include "od.h"
#ifndef OP
#define OP 0
#endif
#ifndef MODE
#define MODE 2
#endif

/* is the producer action really pending in the timer lists, and with which period (ticks)? */
static uint32_t prod_cycle(void)
{
    CO_TMR_TIME *e; CO_TMR_ACTION *a; uint32_t i, j, n = 0, cyc = 0;
    if (node.Sync.Tmr < 0) { return 0; }
    for (e = node.Tmr.Use, i = 0; (e != 0) && (i <= OD_TMR_N); e = e->Next, i++) {
        for (a = e->Action, j = 0; (a != 0) && (j <= OD_TMR_N); a = a->Next, j++) {
            if (((int16_t)a->Id == node.Sync.Tmr) && (a->Func == COSyncProdSend)) { n++; cyc = a->CycleTicks; }
        }
    }
    return (n == 1) ? cyc : 0;
}
static uint32_t min_us(void) { return (OD_FREQ >= 10000u) ? 100u : (10000u / OD_FREQ) * 100u; }

void harness(void)
{
    uint8_t  d[8];
    uint32_t i;

    env_reset();
    od_defaults();
#if OP <= 1
    {
        uint32_t o5 = ND_U32(), o6 = ND_U32(), nv = ND_U32();
        CO_ERR   left = (ND_U8() & 1) ? CO_ERR_SYNC_RES : ((ND_U8() & 1) ? CO_ERR_TMR_NO_ACT : CO_ERR_NONE);
        uint8_t  prod0, ok, is_abort;
        uint32_t code;
        ASSUME((o5 & 0xBFFFF800u) == 0);                 /* 11-bit id, bit 30 free   */
        ASSUME(o6 <= 6553500u);                          /* see DESIGN.md: 16-bit time conversion */
        /* a stored configuration that produces is one the timer can resolve */
        ASSUME(((o5 & 0x40000000u) == 0) || (o6 >= min_us()));
        v1005 = o5; v1006 = o6;
        node_boot();
        CHECK(node.Error == CO_ERR_NONE, "configuration accepted");
        prod0 = (o5 & 0x40000000u) != 0;
        CHECK((node.Sync.Tmr >= 0) == prod0, "producer runs after start exactly when bit 30 of 1005h is set");
        node.Error = left;                               /* an error the application has not read yet */
#if OP == 0
        ASSUME((nv & 0xBFFFF800u) == 0);
        d[0] = 0x23; d[1] = 0x05; d[2] = 0x10; d[3] = 0;
#else
        ASSUME(nv <= 6553500u);
        d[0] = 0x23; d[1] = 0x06; d[2] = 0x10; d[3] = 0;
#endif
        d[4] = (uint8_t)nv; d[5] = (uint8_t)(nv >> 8); d[6] = (uint8_t)(nv >> 16); d[7] = (uint8_t)(nv >> 24);
        env_deliver(&node, 0x600 + OD_NODEID, 8, d);
        CHECK(env_tx_n == 1, "SDO answered");
        is_abort = (env_tx[0].Data[0] == 0x80);
        code = (uint32_t)env_tx[0].Data[4] | ((uint32_t)env_tx[0].Data[5] << 8) | ((uint32_t)env_tx[0].Data[6] << 16) | ((uint32_t)env_tx[0].Data[7] << 24);
#if OP == 0
        if (prod0) {
            if ((nv & 0x7FF) != (o5 & 0x7FF)) {
                CHECK(is_abort && code == 0x06090030, "CAN-ID change while producing refused with 0609 0030h");
                CHECK(v1005 == o5 && node.Sync.Tmr >= 0, "refused: previous value kept, production continues");
                CHECK(prod_cycle() != 0, "refused CAN-ID change: the producer action is still pending");
            } else {
                CHECK(!is_abort && v1005 == nv, "same CAN-ID accepted while producing");
                CHECK((node.Sync.Tmr >= 0) == ((nv & 0x40000000u) != 0), "production stops immediately when bit 30 is cleared");
            }
        } else {
            if ((nv & 0x40000000u) == 0) {
                CHECK(!is_abort && v1005 == nv && node.Sync.Tmr < 0, "CAN-ID of a consumer changes freely");
                CHECK(node.Sync.CobId == nv, "new CAN-ID used for SYNC recognition at once");
            } else if (o6 >= min_us()) {
                CHECK(!is_abort && v1005 == nv && node.Sync.Tmr >= 0, "production starts immediately when bit 30 is set");
                CHECK(prod_cycle() != 0, "started producer is pending in the timer lists");
            } else if (o6 != 0) {
                CHECK(is_abort && v1005 == o5 && node.Sync.Tmr < 0, "period the timer cannot resolve: start refused, previous value kept");
            } else {
                CHECK(node.Sync.Tmr < 0, "no production with period zero");
            }
        }
        COVER(prod0 && is_abort, "id change while producing");
        COVER(!prod0 && (nv & 0x40000000u) && o6 >= min_us() && left == CO_ERR_SYNC_RES, "start with a stale resolution error pending");
#else
        ok = (nv >= min_us());
        if (prod0) {
            if (ok) {
                CHECK(!is_abort && v1006 == nv && node.Sync.Tmr >= 0 && node.Sync.Cycle == nv, "new period accepted and used immediately");
                CHECK(prod_cycle() != 0, "re-timed producer is pending in the timer lists");
            } else if (nv != 0) {
                CHECK(is_abort && v1006 == o6 && node.Sync.Tmr >= 0, "period the timer cannot resolve refused, previous value kept");
                CHECK(prod_cycle() != 0, "refused period: production continues with the previous period");
            }
        } else {
            CHECK(!is_abort && v1006 == nv && node.Sync.Tmr < 0, "period stored while not producing");
        }
        COVER(prod0 && ok && left == CO_ERR_SYNC_RES, "re-time with a stale resolution error pending");
        COVER(prod0 && !ok && nv != 0, "unresolvable period");
        (void)code;
#endif
    }
#elif OP == 2
    {
        CO_IF_FRM f;
        int16_t   r;
        node_boot();
        node.Sync.CobId = ND_U32();
        ASSUME((node.Sync.CobId & 0x3FFFF800u) == 0);
        f.Identifier = ND_U32(); f.DLC = (uint8_t)ND_RANGE(0, 8); ND_BUF(f.Data, 8);   /* all 32 bits: bits 29..31 mark extended / remote frames */
        r = COSyncUpdate(&node.Sync, &f);
        CHECK((r >= 0) == (f.Identifier == (node.Sync.CobId & 0x7FF)), "frame is a SYNC exactly when its identifier equals the CAN-ID of 1005h");
        COVER(r >= 0, "match");
        (void)d;
    }
#else
    {
#ifndef T1
#define T1 3
#endif
#ifdef N0V
        uint8_t  n0 = N0V, n1 = T1;            /* two channels: everything concrete (enumerated), see DESIGN.md §3 rule 4 */
#else
        uint8_t  n0 = (uint8_t)ND_RANGE(1, 240), n1 = T1;
#endif    /* type of channel 1 enumerated (synchronous or not must stay concrete) */
        uint8_t  c0, c1, s1;
        uint32_t exp = 0;
        V1800_1(0) = 0x40000180; V1800_2(0) = 1; V1A00_0(0) = 1;   /* registered as synchronous with a concrete type; the symbolic type is injected below */ V1A00(0, 0) = CO_LINK(0x2100, 0, 8);
#if OD_TPDO > 1
        V1800_1(1) = 0x40000280; V1800_2(1) = n1; V1A00_0(1) = 1; V1A00(1, 0) = CO_LINK(0x2101, 0, 16);
#endif
        app.b = ND_U8(); app.w = ND_U16();
        node_boot();
#if MODE == 3
        CONmtSetMode(&node.Nmt, CO_OPERATIONAL);
#elif MODE == 4
        CONmtSetMode(&node.Nmt, CO_STOP);
#endif
        s1 = (OD_TPDO > 1) && (n1 <= 240);               /* channel 1 synchronous?    */
#if MODE == 3
        CHECK(node.Sync.TPdo[0] != 0 && node.Sync.TNum[0] == 1, "synchronous TPDO registered with its type");
        node.Sync.TNum[0] = n0; V1800_2(0) = n0;
#if OD_TPDO > 1
        CHECK((node.Sync.TPdo[1] != 0) == s1, "event-driven TPDO not registered for SYNC");
#endif
        /* arbitrary position inside the SYNC cycle */
#ifdef N0V
        c0 = C0V; c1 = C1V;
#else
        c0 = (uint8_t)ND_RANGE(0, 239); ASSUME(c0 < n0);
        c1 = (uint8_t)ND_RANGE(0, 239); ASSUME((n1 == 0) || (c1 < n1));
#endif
        node.Sync.TSync[0] = c0;
#if OD_TPDO > 1
        if (s1) { node.Sync.TSync[1] = c1; }
#endif
#else
        c0 = 0; c1 = 0;
#endif
        for (i = 0; i < 8; i++) { d[i] = 0; }
        env_tx_n = 0;
        env_deliver(&node, 0x80, 0, d);
#if MODE == 3
        if (c0 + 1 == n0) { exp++; CHECK(node.Sync.TSync[0] == 0, "counter restarts after the n-th SYNC"); }
        else              { CHECK(node.Sync.TSync[0] == c0 + 1, "SYNC advances the schedule exactly once"); }
#if OD_TPDO > 1
        if (s1 && (n1 != 0)) {
            if (c1 + 1 == n1) { exp++; } else { CHECK(node.Sync.TSync[1] == c1 + 1, "SYNC advances every synchronous TPDO exactly once"); }
        }
#endif
        if (s1 && (n1 == 0)) { ASSUME(0); }              /* type 0 (acyclic synchronous): see DESIGN.md appendix B */
        CHECK(env_tx_n == exp, "TPDO of type n is sent on every n-th SYNC and on no other");
        for (i = 0; i < 2; i++) {
            if (i < env_tx_n) { CHECK(env_tx[i].Identifier == 0x180 + OD_NODEID || env_tx[i].Identifier == 0x280 + OD_NODEID, "TPDO identifier"); }
        }
#if OD_TPDO > 1
        COVER(exp == 2, "both TPDOs due on the same SYNC");
#endif
        COVER(exp == 1, "TPDO due");
        COVER(exp == 0, "no TPDO due");
#else
        CHECK(env_tx_n == 0, "no TPDO outside OPERATIONAL");
        CHECK(env_canrcv_n == ((MODE == 4) ? env_canrcv_n : 0), "SYNC consumed in PRE-OPERATIONAL");
#endif
        (void)c0; (void)c1; (void)s1; (void)exp;
    }
#endif
    CHECK(env_fatal == 0, "no fatal error");
    COVER(1, "end");
}
