/* C01/C04/C05 sdo_step: ONE arbitrary frame on the request identifier of SDO
 * server 0 from an ARBITRARY server state satisfying the representation
 * invariant (sdo_inv.h).  Inductive step: memory safety, no fatal error,
 * bounded number of responses on the right identifier, invariant preserved,
 * storage that must not change does not change.  One discharged step covers
 * frame histories of any length.
 *   PH   0 idle, 1 segmented transfer open, 2 block download, 3 block
 *        download waiting for next block/end, 4 block upload
 *   TGT  object addressed by the open transfer / by an initiate request
 *   FM   1: the frame names the alternative object 2102h instead of TGT
 *   block size through -DCO_VERIF_SDO_BUF_SEG (hook)                         */
#include "sdo_inv.h"

#ifndef PH
#define PH 0
#endif
#ifndef TGT
#define TGT 2
#endif

typedef struct { uint16_t idx; uint8_t sub; } MUX;
static const MUX tgts[] = {
    { 0x2100, 0 }, { 0x2101, 0 }, { 0x2102, 0 }, { 0x2106, 0 }, { 0x2107, 0 }, { 0x2108, 0 },
    { 0x2110, 0 }, { 0x2111, 0 }, { 0x1017, 0 }, { 0x1200, 1 }, { 0x3000, 0 }, { 0x2109, 7 },
    { 0x1018, 1 }
};
#define ALT_IDX 0x2102
#define ALT_SUB 0

static uint8_t snap_ro, snap_str[OD_STR_SIZE + 4], snap_dom[OD_DOM_SIZE + 4];
static uint8_t snap_b, snap_wo; static uint16_t snap_w; static uint32_t snap_l, snap_nl;

void harness(void)
{
    CO_SDO  *s = &node.Sdo[0];
    CO_OBJ  *tgt, *alt;
    uint8_t  data[8];
    uint8_t  dlc;
    uint8_t  sel;
    uint32_t i, slen;
    uint16_t fidx; uint8_t fsub;
    uint8_t  cmd;
    uint32_t txmin, txmax;
    uint8_t  wr_ok;

    env_reset();
    od_defaults();
    /* symbolic application data */
    app.b = ND_U8(); app.w = ND_U16(); app.l = ND_U32(); app.nl = ND_U32();
    app.ro = ND_U8(); app.wo = ND_U8();
    ND_BUF(app.dom, OD_DOM_SIZE + 4);
    slen = ND_RANGE(0, OD_STR_SIZE);
    for (i = 0; i < OD_STR_SIZE + 4; i++) {
        uint8_t c = (uint8_t)(ND_U8() | 1u);
        app.str[i] = (i < slen) ? c : 0;
    }
    v1017 = 0;
    node_boot();                               /* PRE-OPERATIONAL            */
    CHECK(node.Nmt.Mode == CO_PREOP && node.Error == CO_ERR_NONE, "node boots");

    tgt = od_find(tgts[TGT].idx, tgts[TGT].sub);
    alt = od_find(ALT_IDX, ALT_SUB);

    /* ---- arbitrary server state under the invariant ---- */
    /* objects and dispatch targets stay concrete (DESIGN.md §3 rule 1) */
    sdo_arbitrary_state(s, 0, PH, tgt);
#ifndef OD_NOAPP
    od_dom.Offset = ND_RANGE(0, OD_DOM_SIZE);
    od_str.Offset = ND_RANGE(0, OD_STR_SIZE);
    ASSUME(od_str.Offset <= slen);
#endif
    ASSUME(sdo_inv(s, 0, tgt, alt));

    snap_ro = app.ro; snap_b = app.b; snap_w = app.w; snap_l = app.l; snap_nl = app.nl; snap_wo = app.wo;
    for (i = 0; i < OD_STR_SIZE + 4; i++) { snap_str[i] = app.str[i]; }
    for (i = 0; i < OD_DOM_SIZE + 4; i++) { snap_dom[i] = app.dom[i]; }

    /* ---- one arbitrary frame ---- */
    ND_BUF(data, 8);
    dlc  = (uint8_t)ND_RANGE(0, 8);
    cmd  = data[0];
    fidx = (uint16_t)(data[1] | ((uint16_t)data[2] << 8));
    fsub = data[3];
    /* a multiplexer is only looked at by initiate requests; it names the
     * target object or the alternative one (the fully symbolic multiplexer is
     * decided dispatch-free in sdo_lookup) */
#ifndef FM
#define FM 0
#endif
    fidx = FM ? ALT_IDX : tgts[TGT].idx;
    fsub = FM ? ALT_SUB : tgts[TGT].sub;
    data[1] = (uint8_t)fidx; data[2] = (uint8_t)(fidx >> 8); data[3] = fsub;
    (void)sel;

    DBG("pre : blk=%d obj=%p num=%u cur=%ld seg(%u,%u,%u) blk(sz=%u len=%u n=%u c=%u ok=%u lv=%u)\n", (int)s->Blk.State, (void *)s->Obj, s->Buf.Num, (long)(s->Buf.Cur - s->Buf.Start),
        s->Seg.Size, s->Seg.Num, s->Seg.TBit, s->Blk.Size, s->Blk.Len, s->Blk.SegNum, s->Blk.SegCnt, s->Blk.SegOk, s->Blk.LastValid);
    DBG("frame: %02x %02x %02x %02x %02x %02x %02x %02x dlc=%u\n", data[0], data[1], data[2], data[3], data[4], data[5], data[6], data[7], dlc);
    env_deliver(&node, 0x600 + OD_NODEID, dlc, data);
    DBG("post: blk=%d obj=%p num=%u cur=%ld tx=%u first=%02x %02x%02x%02x%02x\n", (int)s->Blk.State, (void *)s->Obj, s->Buf.Num, (long)(s->Buf.Cur - s->Buf.Start), env_tx_n,
        env_tx[0].Data[0], env_tx[0].Data[7], env_tx[0].Data[6], env_tx[0].Data[5], env_tx[0].Data[4]);

    /* ---- post-conditions ---- */
    CHECK(env_fatal == 0, "no fatal error");
    sdo_inv_check(s, 0, tgt, alt);
    CHECK(env_canrcv_n == 0, "request is consumed by the SDO server");
    /* number of responses */
    txmin = 1; txmax = 1;
    if (cmd == 0x80) { txmin = 0; }                    /* client abort: not constrained */
#if PH == 2
    txmin = 0;                                         /* segment inside a block        */
#elif PH == 4
    if (cmd == 0xA1)                 { txmin = 0; txmax = 0; }
    else if ((cmd & 0xE3) == 0xA2)   { txmin = 0; txmax = SDO_N; }
#else
    if (cmd == 0xA3)                 { txmin = 0; txmax = SDO_N; }
#endif
#if PH == 3
    if ((cmd & 0xE3) != 0xC1)        { txmin = 0; }    /* next block segment            */
#endif
    CHECK(env_tx_n >= txmin && env_tx_n <= txmax, "number of responses to one request");
    for (i = 0; i < ENV_TX_MAX; i++) {
        if (i < env_tx_n) {
            CHECK(env_tx[i].Identifier == 0x580 + OD_NODEID, "responses use the server's response identifier");
        }
    }
    /* storage that no SDO request may change */
    CHECK(app.ro == snap_ro, "read-only object unchanged");
    for (i = 0; i < OD_STR_SIZE + 4; i++) { CHECK(app.str[i] == snap_str[i], "read-only string unchanged"); }
    for (i = OD_DOM_SIZE; i < OD_DOM_SIZE + 4; i++) { CHECK(app.dom[i] == snap_dom[i], "bytes behind the domain unchanged"); }
    CHECK(app.g0 == 0 && app.g1 == 0 && app.g2 == 0 && app.g3 == 0 && app.g6 == 0 && app.g7 == 0 && app.g8 == 0 &&
          app.g9 == 0 && app.g10 == 0 && app.g11 == 0 && app.g12 == 0, "guard words untouched");
    /* a request that is not a write command for this object leaves it alone:
     * only requests carrying data (download initiate/segment/block) may write */
    wr_ok = ((cmd & 0xE0) == 0x20) || ((cmd & 0xE0) == 0x00) || ((cmd & 0xE0) == 0xC0) || (PH == 2) || (PH == 3);
    if (!wr_ok) {
        CHECK(app.b == snap_b && app.w == snap_w && app.l == snap_l && app.nl == snap_nl && app.wo == snap_wo,
              "upload and abort requests do not modify objects");
    }
    CHECK(od_dom.Offset <= od_dom.Size, "domain offset within the domain");

    COVER(env_tx_n == 1 && env_tx[0].Data[0] == 0x80, "abort response");
    COVER(env_tx_n == 1 && env_tx[0].Data[0] != 0x80, "positive response");
    COVER(env_tx_n == 0, "silent");
    COVER(1, "end");
}
