/* C01/C04/C05 sdo_step: ONE arbitrary frame on the request identifier of SDO
 * server 0 from an ARBITRARY server state satisfying the representation
 * invariant (sdo_inv.h).  Inductive step: memory safety, no fatal error,
 * bounded number of responses on the right identifier, invariant preserved,
 * storage that must not change does not change.  One discharged step covers
 * frame histories of any length.
 *   PH   0 idle, 1 segmented transfer open, 2 block download, 3 block
 *        download waiting for next block/end, 4 block upload
 *   TGT  object addressed by the open transfer / by an initiate request
 *   FM   1: the frame names the alternative object 2102h instead of TGT
 *   block size through -DCO_VERIF_SDO_BUF_SEG (hook)                         */
#include "sdo_inv.h"

#ifndef PH
#define PH 0
#endif
#ifndef TGT
#define TGT 2
#endif

typedef struct { uint16_t idx; uint8_t sub; } MUX;
static const MUX tgts[] = {
    { 0x2100, 0 }, { 0x2101, 0 }, { 0x2102, 0 }, { 0x2106, 0 }, { 0x2107, 0 }, { 0x2108, 0 },
    { 0x2110, 0 }, { 0x2111, 0 }, { 0x1017, 0 }, { 0x1200, 1 }, { 0x3000, 0 }, { 0x2109, 7 },
    { 0x1018, 1 }
};
#define ALT_IDX 0x2102
#define ALT_SUB 0

static uint8_t snap_ro, snap_str[OD_STR_SIZE + 4], snap_dom[OD_DOM_SIZE + 4];
#if CO_SSDO_N > 1
static CO_SDO  snap_s1;
static uint8_t snap_buf1[SDO_BB];
#endif
static uint8_t snap_b, snap_wo; static uint16_t snap_w; static uint32_t snap_l, snap_nl;

void harness(void)
{
    CO_SDO  *s = &node.Sdo[0];
    CO_OBJ  *tgt, *alt;
    uint8_t  data[8];
    uint8_t  dlc;
    uint8_t  sel;
    uint32_t i, slen;
    uint16_t fidx; uint8_t fsub;
    uint8_t  cmd;
    uint32_t txmin, txmax;
    uint8_t  wr_ok;
    uint8_t  pre_tbit;

    env_reset();
    od_defaults();
    /* symbolic application data */
    app.b = ND_U8(); app.w = ND_U16(); app.l = ND_U32(); app.nl = ND_U32();
    app.ro = ND_U8(); app.wo = ND_U8();
    ND_BUF(app.dom, OD_DOM_SIZE + 4);
    slen = ND_RANGE(0, OD_STR_SIZE);
    for (i = 0; i < OD_STR_SIZE + 4; i++) {
        uint8_t c = (uint8_t)(ND_U8() | 1u);
        app.str[i] = (i < slen) ? c : 0;
    }
    v1017 = 0;
    node_boot();                               /* PRE-OPERATIONAL            */
    CHECK(node.Nmt.Mode == CO_PREOP && node.Error == CO_ERR_NONE, "node boots");
    for (i = 0; i < CO_SSDO_N; i++) {
        CHECK(node.Sdo[i].Buf.Start == &od_sdo_buf[i][0], "every SDO server owns its own slice of the transfer buffer");
    }

    tgt = od_find(tgts[TGT].idx, tgts[TGT].sub);
    alt = od_find(ALT_IDX, ALT_SUB);

    /* ---- arbitrary server state under the invariant ---- */
    /* objects and dispatch targets stay concrete (DESIGN.md §3 rule 1) */
    sdo_arbitrary_state(s, 0, PH, tgt);
#ifndef OD_NOAPP
    od_dom.Offset = ND_RANGE(0, OD_DOM_SIZE);
    od_str.Offset = ND_RANGE(0, OD_STR_SIZE);
    ASSUME(od_str.Offset <= slen);
#endif
    ASSUME(sdo_inv(s, 0, tgt, alt));

    snap_ro = app.ro; snap_b = app.b; snap_w = app.w; snap_l = app.l; snap_nl = app.nl; snap_wo = app.wo;
    for (i = 0; i < OD_STR_SIZE + 4; i++) { snap_str[i] = app.str[i]; }
    for (i = 0; i < OD_DOM_SIZE + 4; i++) { snap_dom[i] = app.dom[i]; }

    pre_tbit = s->Seg.TBit;
#if CO_SSDO_N > 1
    /* second server: arbitrary state (any phase) open on the alternative object */
    {
        CO_SDO *s1 = &node.Sdo[1];
        uint8_t ph1 = (uint8_t)ND_RANGE(0, 4);
        sdo_arbitrary_state(s1, 1, 1, alt);
        if (ph1 == 0) { s1->Obj = 0; }
        s1->Blk.State = (ph1 <= 1) ? BLK_IDLE : (ph1 == 2) ? BLK_DOWNLOAD : (ph1 == 3) ? BLK_DNWAIT : BLK_UPLOAD;
        ASSUME(sdo_inv(s1, 1, tgt, alt));
        snap_s1 = *s1;
        for (i = 0; i < SDO_BB; i++) { snap_buf1[i] = od_sdo_buf[1][i]; }
    }
#endif
    /* ---- one arbitrary frame ---- */
    ND_BUF(data, 8);
    dlc  = (uint8_t)ND_RANGE(0, 8);
    cmd  = data[0];
    fidx = (uint16_t)(data[1] | ((uint16_t)data[2] << 8));
    fsub = data[3];
    /* a multiplexer is only looked at by initiate requests; it names the
     * target object or the alternative one (the fully symbolic multiplexer is
     * decided dispatch-free in sdo_lookup) */
#ifndef FM
#define FM 0
#endif
    fidx = FM ? ALT_IDX : tgts[TGT].idx;
    fsub = FM ? ALT_SUB : tgts[TGT].sub;
    data[1] = (uint8_t)fidx; data[2] = (uint8_t)(fidx >> 8); data[3] = fsub;
    (void)sel;

    DBG("pre : blk=%d obj=%p num=%u cur=%ld seg(%u,%u,%u) blk(sz=%u len=%u n=%u c=%u ok=%u lv=%u)\n", (int)s->Blk.State, (void *)s->Obj, s->Buf.Num, (long)(s->Buf.Cur - s->Buf.Start),
        s->Seg.Size, s->Seg.Num, s->Seg.TBit, s->Blk.Size, s->Blk.Len, s->Blk.SegNum, s->Blk.SegCnt, s->Blk.SegOk, s->Blk.LastValid);
    DBG("frame: %02x %02x %02x %02x %02x %02x %02x %02x dlc=%u\n", data[0], data[1], data[2], data[3], data[4], data[5], data[6], data[7], dlc);
    env_deliver(&node, 0x600 + OD_NODEID, dlc, data);
    DBG("post: blk=%d obj=%p num=%u cur=%ld tx=%u first=%02x %02x%02x%02x%02x\n", (int)s->Blk.State, (void *)s->Obj, s->Buf.Num, (long)(s->Buf.Cur - s->Buf.Start), env_tx_n,
        env_tx[0].Data[0], env_tx[0].Data[7], env_tx[0].Data[6], env_tx[0].Data[5], env_tx[0].Data[4]);

    /* ---- post-conditions ---- */
    CHECK(env_fatal == 0, "no fatal error");
    sdo_inv_check(s, 0, tgt, alt);
    CHECK(env_canrcv_n == 0, "request is consumed by the SDO server");
    /* number of responses */
    txmin = 1; txmax = 1;
    if (cmd == 0x80) { txmin = 0; }                    /* client abort: not constrained */
#if PH == 2
    txmin = 0;                                         /* segment inside a block        */
#elif PH == 4
    if (cmd == 0xA1)                 { txmin = 0; txmax = 0; }
    else if ((cmd & 0xE3) == 0xA2)   { txmin = 0; txmax = SDO_N; }
#else
    if (cmd == 0xA3)                 { txmin = 0; txmax = SDO_N; }
#endif
#if PH == 3
    if ((cmd & 0xE3) != 0xC1)        { txmin = 0; }    /* next block segment            */
#endif
    CHECK(env_tx_n >= txmin && env_tx_n <= txmax, "number of responses to one request");
    for (i = 0; i < ENV_TX_MAX; i++) {
        if (i < env_tx_n) {
            CHECK(env_tx[i].Identifier == 0x580 + OD_NODEID, "responses use the server's response identifier");
        }
    }
    /* storage that no SDO request may change */
    CHECK(app.ro == snap_ro, "read-only object unchanged");
    for (i = 0; i < OD_STR_SIZE + 4; i++) { CHECK(app.str[i] == snap_str[i], "read-only string unchanged"); }
    for (i = OD_DOM_SIZE; i < OD_DOM_SIZE + 4; i++) { CHECK(app.dom[i] == snap_dom[i], "bytes behind the domain unchanged"); }
    CHECK(app.g0 == 0 && app.g1 == 0 && app.g2 == 0 && app.g3 == 0 && app.g6 == 0 && app.g7 == 0 && app.g8 == 0 &&
          app.g9 == 0 && app.g10 == 0 && app.g11 == 0 && app.g12 == 0, "guard words untouched");
    /* a request that is not a write command for this object leaves it alone:
     * only requests carrying data (download initiate/segment/block) may write */
    wr_ok = ((cmd & 0xE0) == 0x20) || ((cmd & 0xE0) == 0x00) || ((cmd & 0xE0) == 0xC0) || (PH == 2) || (PH == 3);
    if (!wr_ok) {
        CHECK(app.b == snap_b && app.w == snap_w && app.l == snap_l && app.nl == snap_nl && app.wo == snap_wo,
              "upload and abort requests do not modify objects");
    }
    CHECK(od_dom.Offset <= od_dom.Size, "domain offset within the domain");
    /* a client abort ends whatever transfer is open (C04 / C05: the next request starts from an idle server) */
    if ((cmd == 0x80) && (dlc >= 1)) {
        CHECK(s->Obj == 0 && s->Blk.State == BLK_IDLE, "client abort leaves the server idle");
    }
#if CO_SSDO_N > 1
    {
        CO_SDO *s1 = &node.Sdo[1];
        CHECK(s1->Obj == snap_s1.Obj && s1->Blk.State == snap_s1.Blk.State && s1->Buf.Cur == snap_s1.Buf.Cur && s1->Buf.Num == snap_s1.Buf.Num &&
              s1->Seg.Num == snap_s1.Seg.Num && s1->Seg.Size == snap_s1.Seg.Size && s1->Seg.TBit == snap_s1.Seg.TBit &&
              s1->Blk.Len == snap_s1.Blk.Len && s1->Blk.Size == snap_s1.Blk.Size && s1->Blk.SegCnt == snap_s1.Blk.SegCnt &&
              s1->Blk.SegNum == snap_s1.Blk.SegNum && s1->Blk.SegOk == snap_s1.Blk.SegOk && s1->Idx == snap_s1.Idx && s1->Sub == snap_s1.Sub,
              "traffic on server 0 leaves the transfer state of server 1 untouched");
        for (i = 0; i < SDO_BB; i++) { CHECK(od_sdo_buf[1][i] == snap_buf1[i], "traffic on server 0 leaves the buffer slice of server 1 untouched"); }
    }
#endif

#if PH == 0
    /* ---- C04: verdict of a request arriving at an idle server ------------ */
    {
        const CO_IF_FRM *r = &env_tx[0];
        uint32_t code = (uint32_t)r->Data[4] | ((uint32_t)r->Data[5] << 8) | ((uint32_t)r->Data[6] << 16) | ((uint32_t)r->Data[7] << 24);
        uint8_t  is_abort = (env_tx_n == 1) && (r->Data[0] == 0x80);
        uint8_t  init_dl  = ((cmd & 0xF2) == 0x22) || ((cmd & 0xF2) == 0x20) || ((cmd & 0xF9) == 0xC0);
        uint8_t  init_ul  = (cmd == 0x40) || ((cmd & 0xE3) == 0xA0);
        uint8_t  exists   = (TGT != 10) && (TGT != 11);
        uint8_t  writable = exists && (TGT != 4) && (TGT != 7) && (TGT != 12);
        uint8_t  readable = exists && (TGT != 5);
        uint8_t  unchanged = (app.b == snap_b) && (app.w == snap_w) && (app.l == snap_l) && (app.nl == snap_nl) && (app.wo == snap_wo);
        uint32_t osz = (TGT == 0 || TGT == 4 || TGT == 5) ? 1 : (TGT == 1 || TGT == 8) ? 2 : (TGT == 2 || TGT == 3 || TGT == 9 || TGT == 12) ? 4 : 0;
        for (i = 0; i < OD_DOM_SIZE; i++) { if (app.dom[i] != snap_dom[i]) { unchanged = 0; } }
        if (cmd != 0x80) {
            if (init_dl || init_ul) {
                /* every response to an initiate names the requested object */
                CHECK(r->Data[1] == data[1] && r->Data[2] == data[2] && r->Data[3] == data[3], "response to an initiate request carries the requested multiplexer");
                if (TGT == 10) { CHECK(is_abort && code == 0x06020000, "unknown index refused with 0602 0000h"); }
                if (TGT == 11) { CHECK(is_abort && code == 0x06090011, "unknown sub-index refused with 0609 0011h"); }
                if (init_dl && exists && !writable) { CHECK(is_abort && code == 0x06010002, "write to a read-only object refused with 0601 0002h"); }
                if (init_ul && exists && !readable) { CHECK(is_abort && code == 0x06010001, "read of a write-only object refused with 0601 0001h"); }
            }
            if (((cmd & 0xF2) == 0x22) && writable && (osz != 0) && ((cmd & 1) != 0)) {
                uint32_t width = 4u - ((cmd >> 2) & 3u);
                if (width > osz) { CHECK(is_abort && code == 0x06070012, "expedited data longer than the object refused with 0607 0012h"); }
                if (width < osz) { CHECK(is_abort && code == 0x06070013, "expedited data shorter than the object refused with 0607 0013h"); }
                if ((width == osz) && (TGT <= 5)) { CHECK(!is_abort && r->Data[0] == 0x60, "matching expedited download confirmed"); }
            }
            if (((cmd & 0xF2) == 0x20) && writable && (osz != 0) && ((cmd & 1) != 0)) {
                uint32_t width = (uint32_t)data[4] | ((uint32_t)data[5] << 8) | ((uint32_t)data[6] << 16) | ((uint32_t)data[7] << 24);
                if (width > osz) { CHECK(is_abort && code == 0x06070012, "announced size above the object size refused with 0607 0012h"); }
                if ((width < osz) && (width != 0)) { CHECK(is_abort && code == 0x06070013, "announced size below the object size refused with 0607 0013h"); }
            }
            if ((cmd == 0x40) && readable && (osz != 0) && (TGT != 8) && (TGT != 9)) {
                uint32_t exp = (TGT == 0) ? snap_b : (TGT == 1) ? snap_w : (TGT == 2) ? snap_l : (TGT == 3) ? (snap_nl + OD_NODEID) :
                               (TGT == 4) ? snap_ro : 0x11111111u;
                uint32_t m = (osz == 4) ? 0xFFFFFFFFu : ((1u << (8 * osz)) - 1u);
                CHECK(!is_abort && r->Data[0] == (uint8_t)(0x43 | ((4 - osz) << 2)), "expedited upload answered with the object size");
                CHECK((code & m) == (exp & m), "expedited upload returns the value of the named object");
            }
            if (!(init_dl || init_ul)) {
                /* segment / start / ack / end / unknown commands without a transfer */
                CHECK(is_abort && code == 0x05040001, "command without an open transfer refused with 0504 0001h");
            }
            if (is_abort) {
                CHECK(unchanged, "a refused request changes nothing");
                CHECK(s->Obj == 0 && s->Blk.State == BLK_IDLE, "server idle after refusing a request");
            }
            /* an expedited transfer is complete with its confirmation */
            if ((((cmd & 0xF2) == 0x22) || ((cmd == 0x40) && ((r->Data[0] & 0xE2) == 0x42))) && !is_abort) {
                CHECK(s->Obj == 0 && s->Blk.State == BLK_IDLE, "no transfer stays open after an expedited transfer");
            }
            /* whatever an earlier transfer left behind: a segmented transfer opened now starts at toggle 0, byte 0 */
            if ((((cmd & 0xF2) == 0x20) || (cmd == 0x40)) && !is_abort && (s->Obj != 0) && (s->Blk.State == BLK_IDLE)) {
                CHECK(s->Seg.TBit == 0, "a segmented transfer starts with toggle bit 0 whatever the previous transfer left behind");
                CHECK(s->Seg.Num == 0, "a segmented transfer starts at byte 0 whatever the previous transfer left behind");
            }
            COVER((((cmd & 0xF2) == 0x20) || (cmd == 0x40)) && !is_abort && (s->Obj != 0) && (s->Blk.State == BLK_IDLE) && pre_tbit == 1, "segmented transfer opened after a left-over toggle bit");
        }
        COVER(is_abort && code == 0x06070012, "length too high");
        COVER(is_abort && code == 0x06070013, "length too low");
    }
#elif PH == 1
    /* ---- C04: toggle error inside an open segmented transfer --------------- */
    {
        const CO_IF_FRM *r = &env_tx[0];
        uint32_t code = (uint32_t)r->Data[4] | ((uint32_t)r->Data[5] << 8) | ((uint32_t)r->Data[6] << 16) | ((uint32_t)r->Data[7] << 24);
        uint8_t  is_abort = (env_tx_n == 1) && (r->Data[0] == 0x80);
        uint8_t  wrn = (TGT != 4) && (TGT != 7) && (TGT != 12);
        uint8_t  rdn = (TGT != 5);
        if (((cmd & 0xE0) == 0x00) && wrn && (((cmd >> 4) & 1) != pre_tbit)) {
            CHECK(is_abort && code == 0x05030000, "download segment with the wrong toggle bit refused with 0503 0000h");
        }
        if (((cmd & 0xEF) == 0x60) && rdn && (((cmd >> 4) & 1) != pre_tbit)) {
            CHECK(is_abort && code == 0x05030000, "upload segment request with the wrong toggle bit refused with 0503 0000h");
        }
        /* a segment that is answered positively is answered with its own toggle bit */
        /* (not for 1200h:1: a write to the serving server's own COB-ID re-initialises that server inside the request) */
        if (((cmd & 0xE0) == 0x00) && (env_tx_n == 1) && !is_abort && (TGT != 9)) {
            CHECK((r->Data[0] & 0xEF) == 0x20 && ((r->Data[0] >> 4) & 1) == ((cmd >> 4) & 1), "download segment confirmed with the toggle bit of the request");
        }
        if (((cmd & 0xEF) == 0x60) && (env_tx_n == 1) && !is_abort) {
            CHECK((r->Data[0] & 0xE0) == 0x00 && ((r->Data[0] >> 4) & 1) == ((cmd >> 4) & 1), "upload segment carries the toggle bit of the request");
        }
        COVER(is_abort && code == 0x05030000, "toggle error");
    }
#endif
    COVER(env_tx_n == 1 && env_tx[0].Data[0] == 0x80, "abort response");
    COVER(env_tx_n == 1 && env_tx[0].Data[0] != 0x80, "positive response");
    COVER(env_tx_n == 0, "silent");
    COVER(1, "end");
}
