/* C09 nmt_step: one input of a given class in a given NMT mode; everything
 * inside the class symbolic.  The reference state is just the mode, so one
 * step is an induction over all command sequences.
 *   MODE 1 INIT (CONodeInit only), 2 PRE-OP, 3 OPERATIONAL, 4 STOP
 *   IN   0 NMT command frame (cs, target id, extra bytes symbolic)
 *        1 SDO request (expedited upload of 1000h)     2 RPDO frame
 *        3 SYNC frame      4 heartbeat of the monitored node
 *        5 LSS frame (payload symbolic)  6 foreign identifier (symbolic)
 *        7 API CONmtSetMode / CONodeStart   8 COEmcySet   9 TPDO trigger
 *        10 timer tick with the heartbeat producer due                      */
#ifndef NOSYNC            /* NOSYNC: dictionary without 1005h/1006h (SYNC is optional) */
#define OD_SYNC
#endif
#define OD_EMCY
#define OD_HBC
#define OD_RPDO 1
#define OD_TPDO 1
#include "od.h"

#ifndef MODE
#define MODE 2
#endif
#ifndef IN
#define IN 0
#endif

static CO_MODE mode_of(int m) { return (m == 1) ? CO_INIT : (m == 2) ? CO_PREOP : (m == 3) ? CO_OPERATIONAL : CO_STOP; }

void harness(void)
{
    uint8_t  d[8];
    uint8_t  dlc;
    CO_MODE  m0 = mode_of(MODE);
    CO_MODE  m1;
    uint32_t i;
    uint8_t  b0, ab0;

    env_reset();
    od_defaults();
    v1017 = 100;                                   /* heartbeat producer 100 ms */
    V1016(0).Time = 50; V1016(0).NodeId = 9;       /* consumer monitors node 9  */
    V1016(1).Time = 0;  V1016(1).NodeId = 0;
    V1400_1(0) = 0x200; V1400_2(0) = 254; V1600_0(0) = 1; V1600(0, 0) = CO_LINK(0x2100, 0, 8);
    V1800_1(0) = 0x40000180; V1800_2(0) = 254; V1A00_0(0) = 1; V1A00(0, 0) = CO_LINK(0x2103, 0, 8);
    od_emcy_tbl[0].Reg = 1; od_emcy_tbl[0].Code = 0x2310;
    app.b = ND_U8(); app.ab = ND_U8();
    node_init();
    CHECK(node.Error == CO_ERR_NONE, "configuration accepted");
#if MODE >= 2
    CONodeStart(&node);
    CHECK(env_tx_n == 1 && env_tx[0].Identifier == 0x700 + OD_NODEID && env_tx[0].DLC == 1 && env_tx[0].Data[0] == 0,
          "exactly one boot-up frame on entering PRE-OPERATIONAL");
#endif
#if MODE == 3
    CONmtSetMode(&node.Nmt, CO_OPERATIONAL);
#elif MODE == 4
    CONmtSetMode(&node.Nmt, CO_STOP);
#endif
    CHECK(CONmtGetMode(&node.Nmt) == m0, "mode reached");
    env_tx_n = 0; env_modechg_n = 0; env_resetreq_n = 0; env_canrcv_n = 0; env_hbchange_n = 0; env_pdorx_n = 0;
    b0 = app.b; ab0 = app.ab;
    ND_BUF(d, 8);
    dlc = (uint8_t)ND_RANGE(0, 8);

#if IN == 0
    /* ------------------------------------------------ NMT command frame */
    {
        uint8_t cs = d[0], tg = d[1];
        uint8_t mine = (tg == 0) || (tg == OD_NODEID);
        ASSUME(dlc >= 2);
        env_deliver(&node, 0x000, dlc, d);
        m1 = CONmtGetMode(&node.Nmt);
        if (MODE == 1) {
            CHECK(m1 == CO_INIT && env_tx_n == 0 && env_modechg_n == 0, "no NMT command is executed during initialisation");
        } else if (!mine) {
            CHECK(m1 == m0 && env_tx_n == 0 && env_modechg_n == 0 && env_resetreq_n == 0, "command for another node ignored");
        } else if (cs == 1) {
            CHECK(m1 == CO_OPERATIONAL && env_tx_n == 0, "start remote node");
        } else if (cs == 2) {
            CHECK(m1 == CO_STOP && env_tx_n == 0, "stop remote node");
        } else if (cs == 128) {
            CHECK(m1 == CO_PREOP && env_tx_n == 0, "enter pre-operational");
        } else if ((cs == 129) || (cs == 130)) {
            CHECK(m1 == CO_PREOP, "reset ends in pre-operational");
            CHECK(env_tx_n == 1 && env_tx[0].Identifier == 0x700 + OD_NODEID && env_tx[0].DLC == 1 && env_tx[0].Data[0] == 0,
                  "exactly one boot-up frame after a reset");
            CHECK(env_resetreq_n == 1 && env_resetreq_last == ((cs == 129) ? CO_RESET_NODE : CO_RESET_COM), "reset request callback");
        } else {
            CHECK(m1 == m0 && env_tx_n == 0 && env_modechg_n == 0 && env_resetreq_n == 0, "unknown command specifier changes nothing");
        }
        if ((MODE != 1) && mine && ((cs == 1) || (cs == 2) || (cs == 128))) {
            CHECK(env_modechg_n == ((m1 != m0) ? 1u : 0u), "mode change callback exactly on a change");
            CHECK(env_resetreq_n == 0, "no reset request");
        }
        if (MODE != 1) { CHECK(env_canrcv_n == 0, "NMT frame is consumed by the NMT service"); }
        COVER(mine && cs == 129, "reset node");
        COVER(!mine, "foreign target");
        COVER(mine && cs == 1 && m0 != CO_OPERATIONAL, "start");
    }
#elif IN == 1
    /* ------------------------------------------------ SDO request */
    d[0] = 0x40; d[1] = 0x00; d[2] = 0x10; d[3] = 0x00;
    env_deliver(&node, 0x600 + OD_NODEID, dlc, d);
    if ((MODE == 2) || (MODE == 3)) {
        CHECK(env_tx_n == 1 && env_tx[0].Identifier == 0x580 + OD_NODEID && env_tx[0].Data[0] == 0x43, "SDO server answers in PRE-OP / OPERATIONAL");
        CHECK(env_canrcv_n == 0, "SDO request is not handed to the application");
    } else {
        CHECK(env_tx_n == 0, "no SDO response in INIT / STOP");
    }
    CHECK(CONmtGetMode(&node.Nmt) == m0, "mode unchanged");
#elif IN == 2
    /* ------------------------------------------------ RPDO frame */
    env_deliver(&node, 0x200 + OD_NODEID, dlc, d);
    if (MODE == 3) {
        ASSUME(dlc >= 1);
        CHECK(app.b == d[0], "RPDO written in OPERATIONAL");
        CHECK(env_canrcv_n == 0, "RPDO is not handed to the application");
    } else {
        CHECK(app.b == b0, "RPDO ignored outside OPERATIONAL");
        if (MODE != 4) { CHECK(env_canrcv_n == 1, "unclaimed frame handed to the application exactly once"); }
    }
    CHECK(env_tx_n == 0, "no transmission");
#elif IN == 3
    /* ------------------------------------------------ SYNC */
    env_deliver(&node, 0x80, dlc, d);
#ifdef NOSYNC
    if (MODE != 4) { CHECK(env_canrcv_n == 1, "without 1005h identifier 080h belongs to nobody: handed to the application exactly once"); }
#else
    if ((MODE == 2) || (MODE == 3)) {
        CHECK(env_canrcv_n == 0, "SYNC consumed in PRE-OP / OPERATIONAL");
    } else if (MODE == 1) {
        CHECK(env_canrcv_n == 1, "unclaimed frame handed to the application exactly once");
    }
#endif
    CHECK(env_tx_n == 0 && app.b == b0, "no transmission and no object change (nothing synchronous configured)");
#elif IN == 4
    /* ------------------------------------------------ heartbeat of node 9 */
    ASSUME(dlc >= 1);
    env_deliver(&node, 0x700 + 9, dlc, d);
    if (MODE != 1) {
        CHECK(env_canrcv_n == 0, "monitored heartbeat consumed");
        CHECK(CONmtLastHbState(&node.Nmt, 9) == CONmtModeDecode(d[0]), "last heartbeat state recorded");
    } else {
        CHECK(env_hbchange_n == 0, "no heartbeat consumption during initialisation");
    }
    CHECK(env_tx_n == 0, "no transmission");
#elif IN == 5
    /* ------------------------------------------------ LSS */
    env_deliver(&node, 0x7E5, dlc, d);
    CHECK(env_canrcv_n == 0, "LSS frame never reaches the application or another service");
    CHECK(env_tx_n <= 1, "at most one LSS answer");
    if (env_tx_n == 1) { CHECK(env_tx[0].Identifier == 0x7E4, "LSS answer identifier"); }
    CHECK(CONmtGetMode(&node.Nmt) == m0 && app.b == b0, "no other effect");
#elif IN == 6
    /* ------------------------------------------------ foreign identifier */
    /* a symbolic identifier makes every service decoder symbolic at once and
     * does not terminate (DESIGN.md §3); identifiers next to every claimed
     * one are enumerated instead, payload and dlc stay symbolic */
    {
        static const uint32_t ids[] = { 0x001, 0x07F, 0x081, 0x080 + OD_NODEID, 0x123, 0x180 + OD_NODEID, 0x1FF + OD_NODEID, 0x201 + OD_NODEID,
                                        0x300 + OD_NODEID, 0x580 + OD_NODEID, 0x5FF + OD_NODEID, 0x601 + OD_NODEID, 0x700, 0x700 + 8, 0x700 + 10,
                                        0x700 + OD_NODEID, 0x77F, 0x780, 0x7E4, 0x7E6, 0x7FF, 0x1FFFFFFF };
        for (i = 0; i < sizeof(ids) / sizeof(ids[0]); i++) {
            env_canrcv_n = 0;
            env_deliver(&node, ids[i], dlc, d);
            CHECK(env_tx_n == 0, "no transmission for an unclaimed frame");
            if (MODE != 4) {
                CHECK(env_canrcv_n == 1 && env_canrcv_frm.Identifier == ids[i], "unclaimed frame handed to the application exactly once");
            }
            CHECK(CONmtGetMode(&node.Nmt) == m0 && app.b == b0, "no other effect");
        }
    }
#elif IN == 7
    /* ------------------------------------------------ API */
    {
        uint8_t  w = d[0] & 1;
        CO_MODE  nm = mode_of(1 + (d[1] & 3));
        if (w) { CONodeStart(&node); } else { CONmtSetMode(&node.Nmt, nm); }
        m1 = CONmtGetMode(&node.Nmt);
        if (w) {
            CHECK(m1 == ((m0 == CO_INIT) ? CO_PREOP : m0), "CONodeStart leaves INIT only");
            CHECK(env_tx_n == ((m0 == CO_INIT) ? 1u : 0u), "boot-up exactly when leaving INIT");
        } else {
            CHECK(m1 == nm && env_tx_n == 0, "CONmtSetMode sets the mode silently");
            CHECK(env_modechg_n == ((nm != m0) ? 1u : 0u), "mode change callback exactly on a change");
        }
    }
#elif IN == 8
    /* ------------------------------------------------ EMCY */
    COEmcySet(&node.Emcy, 0, 0);
    if ((MODE == 2) || (MODE == 3)) {
        CHECK(env_tx_n == 1 && env_tx[0].Identifier == 0x80 + OD_NODEID && env_tx[0].Data[0] == 0x10 && env_tx[0].Data[1] == 0x23, "EMCY frame in PRE-OP / OPERATIONAL");
    } else {
        CHECK(env_tx_n == 0, "no EMCY frame in INIT / STOP");
    }
#elif IN == 9
    /* ------------------------------------------------ TPDO trigger */
    COTPdoTrigPdo(node.TPdo, 0);
    if (MODE == 3) {
        CHECK(env_tx_n == 1 && env_tx[0].Identifier == 0x180 + OD_NODEID && env_tx[0].DLC == 1 && env_tx[0].Data[0] == ab0, "TPDO in OPERATIONAL");
    } else {
        CHECK(env_tx_n == 0, "no TPDO outside OPERATIONAL");
    }
#else
    /* ------------------------------------------------ heartbeat producer due */
    for (i = 0; i < 100; i++) { env_tmr_counter = (env_tmr_counter > 1) ? 1 : env_tmr_counter; env_tick(&node); if (env_tx_n > 0) { break; } }
    if (MODE != 1) {
        CHECK(env_tx_n == 1 && env_tx[0].Identifier == 0x700 + OD_NODEID && env_tx[0].DLC == 1, "heartbeat in PRE-OP / OPERATIONAL / STOP");
        CHECK(env_tx[0].Data[0] == ((MODE == 2) ? 127 : (MODE == 3) ? 5 : 4), "heartbeat carries the NMT state");
    } else {
        CHECK(env_tx_n == 0, "no heartbeat during initialisation");
    }
#endif
    CHECK(env_fatal == 0, "no fatal error");
    (void)i; (void)ab0; (void)b0; (void)m1;
    COVER(1, "end");
}
