/* C06 dict_find: CODictInit + CODictFind on a fully symbolic, sorted,
 * end-marked dictionary of exactly N entries (array has exactly N+1 slots, so
 * any probe beyond the end marker is an out-of-bounds access for cbmc). */
#include "env.h"
#ifndef N
#define N 4
#endif
static CO_OBJ  od[N + 1];
static CO_NODE node;

void harness(void)
{
    uint32_t i;
    uint32_t key;
    int16_t  num;
    CO_OBJ  *r;
    CO_OBJ  *exp = 0;

    for (i = 0; i < N; i++) {
        od[i].Key  = ND_U32();
        od[i].Type = 0;
        od[i].Data = 0;
        /* well-formed: index/sub-index 0/0 is the end marker, never an entry */
        ASSUME(CO_GET_DEV(od[i].Key) != 0);
        if (i > 0) {
            ASSUME(CO_GET_DEV(od[i - 1].Key) < CO_GET_DEV(od[i].Key));
        }
    }
    od[N].Key = 0; od[N].Type = 0; od[N].Data = 0;

    num = CODictInit(&node.Dict, &node, od, N + 1);
    CHECK(num == N, "CODictInit counts the entries up to the end marker");
    CHECK(node.Dict.Root == od, "CODictInit root");

    key = ND_U32();
    r   = CODictFind(&node.Dict, key);
    for (i = 0; i < N; i++) {
        if (CO_GET_DEV(od[i].Key) == CO_GET_DEV(key)) {
            exp = &od[i];
        }
    }
    CHECK(r == exp, "CODictFind returns the entry with exactly this index/sub-index iff one exists");

#if N > 0
    COVER(r != 0 && r == &od[0], "found first");
#endif
#if N > 1
    COVER(r != 0 && r == &od[N - 1], "found last");
#endif
#if N > 0
    COVER(r == 0 && CO_GET_DEV(key) < CO_GET_DEV(od[0].Key), "absent below first");
    COVER(r == 0 && CO_GET_DEV(key) > CO_GET_DEV(od[N - 1].Key), "absent above last");
#endif
    COVER(CO_GET_DEV(key) == 0 && key != 0, "key with index 0 sub 0 and flag bits");
#if N > 0
    COVER(r != 0 && (uint8_t)key != (uint8_t)r->Key, "flags in key differ from flags in entry");
#endif
    COVER(1, "end");
}
