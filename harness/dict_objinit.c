/* C06 dict_objinit: every entry's type-specific init runs exactly once.
 * Dictionary of exactly N entries whose type is a harness-defined type with a
 * counting Init; keys symbolic (sorted); Init return codes symbolic. */
#include "env.h"
#ifndef N
#define N 3
#endif
static CO_OBJ   od[N + 1];
static CO_NODE  node;
static uint32_t cnt[N + 1];
static uint8_t  fail[N + 1];

static CO_ERR HInit(struct CO_OBJ_T *obj, struct CO_NODE_T *n)
{
    uint32_t i;
    (void)n;
    for (i = 0; i < N; i++) {
        if (obj == &od[i]) {
            cnt[i]++;
            return fail[i] ? CO_ERR_TYPE_INIT : CO_ERR_NONE;
        }
    }
    cnt[N]++;                       /* init called on something that is no entry */
    return CO_ERR_NONE;
}
const CO_OBJ_TYPE HType = { 0, HInit, 0, 0, 0 };

void harness(void)
{
    uint32_t i;
    CO_ERR   err;
    uint8_t  anyfail = 0;

    for (i = 0; i < N; i++) {
        od[i].Key  = ND_U32();
        od[i].Type = &HType;
        od[i].Data = 0;
        fail[i]    = ND_U8() & 1;
        if (fail[i]) { anyfail = 1; }
        ASSUME(CO_GET_DEV(od[i].Key) != 0);
        if (i > 0) {
            ASSUME(CO_GET_DEV(od[i - 1].Key) < CO_GET_DEV(od[i].Key));
        }
    }
    od[N].Key = 0; od[N].Type = 0; od[N].Data = 0;
    (void)CODictInit(&node.Dict, &node, od, N + 1);
    err = CODictObjInit(&node.Dict, &node);
    for (i = 0; i < N; i++) {
        CHECK(cnt[i] == 1, "type init runs exactly once for every entry");
    }
    CHECK(cnt[N] == 0, "type init runs on dictionary entries only");
    CHECK((err != CO_ERR_NONE) == (anyfail != 0), "init error reported iff some entry failed");
    COVER(anyfail == 0, "all ok");
    COVER(fail[0] != 0, "first entry fails");
    COVER(1, "end");
}
