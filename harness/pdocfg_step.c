/* C14 pdocfg_step: ONE expedited SDO write to a PDO communication or mapping
 * parameter from an ARBITRARY stored configuration (COB-ID incl. valid bit,
 * type, count, mapping entries symbolic under the configuration invariant);
 * written value fully symbolic.  Verdict, abort code, "refused => unchanged"
 * and preservation of the invariant (count <= 8 entries, mapped bytes of the
 * first `count` entries <= 8).  Induction over write histories.
 *   DIR 0 RPDO 0 (1400h/1600h), 1 TPDO 0 (1800h/1A00h)
 *   TGT 0 COB-ID :1   1 type :2   2 count (map):0   3..10 mapping entry 1..8 (OD_MAPS slots)
 *   MODE 2 PRE-OP, 3 OPERATIONAL                                              */
#define OD_SYNC
#define OD_RPDO 1
#define OD_TPDO 1
#define OD_DUMMY
#include "od.h"
#ifndef DIR
#define DIR 0
#endif
#ifndef TGT
#define TGT 0
#endif
#ifndef MODE
#define MODE 2
#endif

static uint32_t *cobid_p(void) { return DIR ? &V1800_1(0) : &V1400_1(0); }
static uint8_t  *type_p(void)  { return DIR ? &V1800_2(0) : &V1400_2(0); }
static uint8_t  *cnt_p(void)   { return DIR ? &V1A00_0(0) : &V1600_0(0); }
static uint32_t *map_p(int k)  { return DIR ? &V1A00(0, k) : &V1600(0, k); }

static uint32_t sum_bytes(uint8_t n)
{
    uint32_t s = 0, k;
    for (k = 0; k < OD_MAPS; k++) { if (k < n) { s += (*map_p((int)k) & 0xFF) >> 3; } }
    return s;
}
/* reference: does the mapping value name an existing, mappable object with the right access? */
static int map_ok(uint32_t mv)
{
    uint32_t i;
    for (i = 0; i + 1 < OD_LEN; i++) {
        if (CO_GET_DEV(od[i].Key) == CO_GET_DEV(mv)) {
            if (CO_IS_PDOMAP(od[i].Key) == 0) { return 0; }
            if (DIR ? (CO_IS_READ(od[i].Key) == 0) : (CO_IS_WRITE(od[i].Key) == 0)) { return 0; }
            return 1;
        }
    }
    return 0;
}

void harness(void)
{
    uint8_t  d[8];
    uint32_t nv = ND_U32();
    uint32_t o_id, o_map[OD_MAPS], k;
    uint8_t  o_type, o_cnt, valid_old, is_abort;
    uint32_t code;
    uint16_t idx;
    uint8_t  sub, w;

    env_reset();
    od_defaults();
    /* arbitrary stored configuration */
    *cobid_p() = ND_U32();
    ASSUME((*cobid_p() & 0x3FFFF800u) == 0);                 /* 11-bit identifier                 */
    if (DIR) { ASSUME((*cobid_p() & 0x40000000u) != 0); }     /* TPDO: RTR not allowed (bit 30 set) */
    else     { ASSUME((*cobid_p() & 0x40000000u) == 0); }
    *type_p() = ND_U8();
    *cnt_p()  = (uint8_t)ND_RANGE(0, OD_MAPS);
    for (k = 0; k < OD_MAPS; k++) { *map_p((int)k) = ND_U32(); }
    ASSUME(sum_bytes(*cnt_p()) <= 8);                        /* configuration invariant           */
    node_boot();
#if MODE == 3
    /* activation of an arbitrary mapping makes the mapped object pointers symbolic: in OPERATIONAL only
     * the communication parameters are written, with an empty mapping */
    *cnt_p() = 0;
    CONmtSetMode(&node.Nmt, CO_OPERATIONAL);
#endif
    o_id = *cobid_p(); o_type = *type_p(); o_cnt = *cnt_p();
    for (k = 0; k < OD_MAPS; k++) { o_map[k] = *map_p((int)k); }
    /* 14xxh:1 / 18xxh:1 are node-id relative: value on the wire = stored + node id */
    valid_old = ((o_id & 0x80000000u) == 0);

    idx = (uint16_t)((DIR ? 0x1800 : 0x1400) + ((TGT >= 2) ? 0x200 : 0));
    sub = (TGT == 0) ? 1 : (TGT == 1) ? 2 : (uint8_t)(TGT - 2);
    w   = ((TGT == 1) || (TGT == 2)) ? 1 : 4;
    d[0] = (uint8_t)(0x23 | ((4 - w) << 2)); d[1] = (uint8_t)idx; d[2] = (uint8_t)(idx >> 8); d[3] = sub;
    d[4] = (uint8_t)nv; d[5] = (uint8_t)(nv >> 8); d[6] = (uint8_t)(nv >> 16); d[7] = (uint8_t)(nv >> 24);
    if (w == 1) { nv &= 0xFF; d[5] = 0; d[6] = 0; d[7] = 0; }
    env_tx_n = 0;
    env_deliver(&node, 0x600 + OD_NODEID, 8, d);
    CHECK(env_tx_n == 1, "SDO answered");
    is_abort = (env_tx[0].Data[0] == 0x80);
    code = (uint32_t)env_tx[0].Data[4] | ((uint32_t)env_tx[0].Data[5] << 8) | ((uint32_t)env_tx[0].Data[6] << 16) | ((uint32_t)env_tx[0].Data[7] << 24);

#if TGT == 0
    {
        uint32_t st = nv - OD_NODEID;                         /* value stored for a node-id relative entry */
        uint8_t  valid_new = ((nv & 0x80000000u) == 0);
        if ((nv & 0x20000000u) != 0)                          { CHECK(is_abort, "extended identifier refused"); }
        else if (DIR && ((nv & 0x40000000u) == 0))            { CHECK(is_abort, "RTR-allowed refused"); }
        else if (valid_old && valid_new && (((nv ^ (o_id + OD_NODEID)) & 0x1FFFFFFFu) != 0)) { CHECK(is_abort, "identifier bits change only while the PDO is invalid"); }
        else if (!(valid_old && valid_new))                   { CHECK(!is_abort && *cobid_p() == st, "COB-ID write accepted"); }
        COVER(!is_abort && valid_old && !valid_new, "PDO invalidated");
        COVER(!is_abort && !valid_old && valid_new, "PDO validated");
    }
#elif TGT == 1
    if (valid_old) { CHECK(is_abort, "transmission type changes only while the PDO is invalid"); }
    else           { CHECK(!is_abort && *type_p() == (uint8_t)nv, "transmission type accepted"); }
#elif TGT == 2
    {
        uint8_t ok = !valid_old && (nv <= OD_MAPS) && (sum_bytes((uint8_t)nv) <= 8);
        CHECK(is_abort == !ok, "mapping count accepted exactly when the PDO is invalid, the entries exist and at most 8 bytes are mapped");
        if (!valid_old && (nv > 8))                                        { CHECK(code == 0x06040042, "more than 8 entries refused with 0604 0042h"); }
        if (!valid_old && (nv <= OD_MAPS) && (sum_bytes((uint8_t)nv) > 8)) { CHECK(code == 0x06040042, "more than 8 mapped bytes refused with 0604 0042h"); }
        if (ok) { CHECK(*cnt_p() == (uint8_t)nv, "count stored"); }
        COVER(!valid_old && nv <= OD_MAPS && sum_bytes((uint8_t)nv) > 8, "too many bytes");
        COVER(ok && nv == OD_MAPS, "all slots mapped");
    }
#else
    {
        uint8_t ok = !valid_old && (o_cnt == 0) && map_ok(nv);
        CHECK(is_abort == !ok, "mapping entry accepted exactly when the PDO is invalid, the count is zero and the object exists, is mappable and has the access right");
        if (!valid_old && (o_cnt == 0) && !map_ok(nv)) { CHECK(code == 0x06040041, "object that cannot be mapped refused with 0604 0041h"); }
        if (ok) { CHECK(*map_p(TGT - 3) == nv, "mapping entry stored"); }
        COVER(ok && ((nv >> 16) >= 2) && ((nv >> 16) <= 7), "dummy mapped");
        COVER(!valid_old && (o_cnt == 0) && !map_ok(nv) && ((nv >> 16) == 0x2107), "non-mappable object");
    }
#endif
    if (is_abort) {
        CHECK(*cobid_p() == o_id && *type_p() == o_type && *cnt_p() == o_cnt, "a refused write leaves the stored values unchanged");
        for (k = 0; k < OD_MAPS; k++) { CHECK(*map_p((int)k) == o_map[k], "a refused write leaves the stored mapping unchanged"); }
    }
    CHECK(*cnt_p() <= 8 && sum_bytes(*cnt_p()) <= 8, "configuration invariant: at most 8 entries and 8 mapped bytes");
    CHECK(env_fatal == 0, "no fatal error");
    (void)code;
    COVER(is_abort, "refused");
    COVER(1, "end");
}
