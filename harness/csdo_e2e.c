/* C19 csdo_e2e / csdo_step: the real SDO client against a reference SERVER in
 * the harness.
 *  KIND 0 e2e transfer:  DIRN 0 upload / 1 download, size = SIZE bytes (concrete,
 *        enumerated), payload symbolic; server behaviour BEH
 *          0 conforming  1 aborts at step J (symbolic code)  2 silent from step J (time-out)
 *          3 unknown command at step J   4 wrong toggle bit at step J
 *          5 answers more data than requested (upload) / confirms a foreign multiplexer
 *        followed (FOLLOW=1) by a second, conforming expedited upload with a longer
 *        time-out and an idle gap: nothing left over may disturb it.
 *  KIND 1 step: arbitrary BUSY segmented-download context, Size and Buf_Idx
 *        32-bit symbolic (buffer 600 bytes): one confirmation => next segment. */
#define OD_CSDO
#include "od.h"
#ifndef KIND
#define KIND 0
#endif
#ifndef DIRN
#define DIRN 0
#endif
#ifndef SIZE
#define SIZE 4
#endif
#ifndef BEH
#define BEH 0
#endif
#ifndef J
#define J 0
#endif
#ifndef FOLLOW
#define FOLLOW 1
#endif
#define TMO1 3
#define TMO2 8
#define SRV_RX (0x600 + 9)      /* what the client sends on  */
#define SRV_TX (0x580 + 9)      /* what the server answers on */
#define KEY CO_DEV(0x2345, 6)

static uint32_t cb_n, cb_code; static uint16_t cb_idx; static uint8_t cb_sub;
/* CBTMR: the completion callback of the first transfer starts an application timer (as an application that
 * schedules a retry would): it must survive the end of the transfer and fire when due */
static int16_t  app_tmr = -1; static uint32_t app_fired; static uint8_t cb_arm;
static CO_ERR   cb_req; static uint8_t cb_req_done; static uint8_t cb_buf[4];
static void cb(CO_CSDO *c, uint16_t idx, uint8_t sub, uint32_t code);
static void app_cb(void *p) { (void)p; app_fired++; }
static void cb(CO_CSDO *c, uint16_t idx, uint8_t sub, uint32_t code)
{
    (void)c; cb_n++; cb_code = code; cb_idx = idx; cb_sub = sub;
#ifdef CBTMR
    if (cb_arm) { cb_arm = 0; app_tmr = COTmrCreate(&node.Tmr, 2, 0, app_cb, 0); }
#endif
#ifdef CBREQ
    /* the application asks for its next transfer from inside the completion callback */
    if (cb_arm) { cb_arm = 0; cb_req = COCSdoRequestUpload(c, CO_DEV(0x2345, 6), cb_buf, 4, cb, TMO1); cb_req_done = 1; }
#endif
}

#if KIND == 0
#define BUFN (SIZE + 8)
static uint8_t ubuf[BUFN];            /* user buffer with red zones of 4 bytes  */
static uint8_t ubuf0[BUFN];
static uint8_t pay[SIZE + 8];         /* server side object / bytes received    */
static uint8_t srv_rx[SIZE + 16];
#else
static uint8_t big[600];
#endif

static uint32_t free_actions(void)
{
    CO_TMR_ACTION *a = node.Tmr.Acts; uint32_t n = 0, i;
    for (i = 0; (a != 0) && (i <= OD_TMR_N); i++) { n++; a = a->Next; }
    return n;
}
static void srv_send(const uint8_t *d) { env_deliver(&node, SRV_TX, 8, d); }

void harness(void)
{
    CO_CSDO *c;
    uint32_t i;
    uint8_t  r[8];

    env_reset();
    od_defaults();
    v1280_1 = 0x600; v1280_2 = 0x580; v1280_3 = 9;
    node_boot();
    c = COCSdoFind(&node, 0);
    CHECK(c != 0 && c->State == CO_CSDO_STATE_IDLE && c->TxId == SRV_RX && c->RxId == SRV_TX, "client enabled");
    CHECK(free_actions() == OD_TMR_N, "no timer in use before the transfer");

#if KIND == 0
    {
        uint32_t step = 0, got = 0;
        uint8_t  t = 0, done = 0, srv_silent = 0, deviated = 0, lenient = 0;
        uint32_t abort_tx0 = 0, over = 0;
        uint32_t acode = ND_U32();
        CO_ERR   e;
        ND_BUF(pay, SIZE + 8); ND_BUF(ubuf, BUFN);
        for (i = 0; i < BUFN; i++) { ubuf0[i] = ubuf[i]; }
        ASSUME(acode != 0);
        env_tx_n = 0;
        cb_arm = 1;
        e = DIRN ? COCSdoRequestDownload(c, KEY, &ubuf[4], SIZE, cb, TMO1) : COCSdoRequestUpload(c, KEY, &ubuf[4], SIZE, cb, TMO1);
        CHECK(e == CO_ERR_NONE && env_tx_n == 1 && env_tx[0].Identifier == SRV_RX && env_tx[0].DLC == 8, "request sent");
        CHECK(env_tx[0].Data[1] == 0x45 && env_tx[0].Data[2] == 0x23 && env_tx[0].Data[3] == 6, "request names the object");
        /* a busy client refuses further requests */
        CHECK(COCSdoRequestUpload(c, KEY, &ubuf[4], SIZE, cb, TMO1) == CO_ERR_SDO_BUSY && env_tx_n == 1 && cb_n == 0, "busy client refuses a second request");
        if (DIRN == 0) { CHECK(env_tx[0].Data[0] == 0x40, "upload initiate"); }
        else if (SIZE <= 4) {
            CHECK(env_tx[0].Data[0] == (uint8_t)(0x23 | ((4 - SIZE) << 2)), "expedited download with size");
            for (i = 0; i < 4; i++) { CHECK(env_tx[0].Data[4 + i] == ((i < SIZE) ? ubuf0[4 + i] : 0), "expedited data = user bytes"); }
        } else {
            CHECK(env_tx[0].Data[0] == 0x21 && env_tx[0].Data[4] == (uint8_t)SIZE && env_tx[0].Data[5] == (uint8_t)(SIZE >> 8) && env_tx[0].Data[6] == 0 && env_tx[0].Data[7] == 0,
                  "segmented download announces the size");
        }
        /* ---- the server answers, one step per client frame ---- */
        for (step = 0; step < (SIZE + 6) / 7 + 2 + ((BEH == 7) ? 4 : 0); step++) {
            if (!done && !srv_silent && (cb_n == 0)) {
                const CO_IF_FRM *q = &env_tx[env_tx_n - 1];          /* last client frame */
                for (i = 0; i < 8; i++) { r[i] = 0; }
                if ((BEH == 1) && (step == J)) {
                    r[0] = 0x80; r[1] = 0x45; r[2] = 0x23; r[3] = 6; r[4] = (uint8_t)acode; r[5] = (uint8_t)(acode >> 8); r[6] = (uint8_t)(acode >> 16); r[7] = (uint8_t)(acode >> 24);
                    deviated = 1;
                } else if ((BEH == 2) && (step >= J)) {
                    srv_silent = 1;
                } else if ((BEH == 3) && (step == J)) {
                    r[0] = 0xE0; deviated = 1;
                } else if (DIRN == 0) {
                    if (step == 0) {
                        if (SIZE <= 4) {
                            uint8_t n = (BEH == 5) ? 4 : SIZE;       /* BEH 5: more data than requested */
                            r[0] = (uint8_t)(0x43 | ((4 - n) << 2)); r[1] = 0x45; r[2] = 0x23; r[3] = 6;
                            for (i = 0; i < 4; i++) { r[4 + i] = pay[i]; }
                            if ((BEH == 5) && (SIZE < 4)) { deviated = 1; }
                            done = 1;
                        } else {
                            uint32_t sz = (BEH == 5) ? SIZE + 1 : SIZE;
                            r[0] = 0x41; r[1] = 0x45; r[2] = 0x23; r[3] = 6; r[4] = (uint8_t)sz; r[5] = (uint8_t)(sz >> 8);
                            if (BEH == 5) { deviated = 1; }
                        }
                    } else {
                        uint32_t rem = SIZE - got, n = (rem > 7) ? 7 : rem;
                        uint8_t  tb = ((BEH == 4) && (step == J)) ? (uint8_t)(t ^ 1) : t;
                        CHECK((q->Data[0] & 0xEF) == 0x60 && ((q->Data[0] >> 4) & 1) == t, "upload segment request with alternating toggle bit");
                        r[0] = (uint8_t)((tb << 4) | ((7 - n) << 1) | ((got + n == SIZE) ? 1 : 0));
                        for (i = 0; i < 7; i++) { if (i < n) { r[1 + i] = pay[got + i]; } }
                        if (BEH == 7) {
                            /* BEH 7: the server never ends and keeps sending full segments beyond the announced size */
                            r[0] = (uint8_t)(tb << 4);
                            for (i = 0; i < 7; i++) { r[1 + i] = pay[(got + i) % (SIZE + 8)]; }
                            n = 7; over += 7;
                            if (over > SIZE) { lenient = 1; }
                        }
                        if ((BEH == 6) && (got + n == SIZE) && (n < 7)) {
                            /* BEH 6: the last segment claims 7 data bytes although fewer remain */
                            r[0] = (uint8_t)((tb << 4) | 1);
                            for (i = 0; i < 7; i++) { r[1 + i] = pay[got + i]; }
                            lenient = 1;
                        }
                        if (tb != t) { deviated = 1; } else if (BEH == 7) { t ^= 1; if (got + 7 <= SIZE) { got += 7; } if (over >= SIZE + 21) { done = 1; } } else { got += n; t ^= 1; if (got == SIZE) { done = 1; } }
                    }
                } else {
                    if (SIZE <= 4) {
                        r[0] = 0x60; r[1] = (BEH == 5) ? 0x46 : 0x45; r[2] = 0x23; r[3] = 6; done = 1;
                    } else if (step == 0) {
                        r[0] = 0x60; r[1] = (BEH == 5) ? 0x46 : 0x45; r[2] = 0x23; r[3] = 6;
                        if (BEH == 5) { deviated = 1; }
                    } else {
                        /* the client just sent a segment: record and confirm it */
                        uint8_t n = (uint8_t)(7 - ((q->Data[0] >> 1) & 7));
                        uint8_t tb;
                        CHECK((q->Data[0] & 0xE0) == 0x00 && ((q->Data[0] >> 4) & 1) == t, "download segment with alternating toggle bit");
                        CHECK(n == (((SIZE - got) > 7) ? 7 : (SIZE - got)), "segment carries min(7, remaining) bytes");
                        CHECK((q->Data[0] & 1) == ((got + n == SIZE) ? 1 : 0), "last-segment flag exactly on the final segment");
                        for (i = 0; i < 7; i++) { if ((i < n) && (got + i < SIZE + 16)) { srv_rx[got + i] = q->Data[1 + i]; } }
                        got += n;
                        tb = ((BEH == 4) && (step == J)) ? (uint8_t)(t ^ 1) : t;
                        r[0] = (uint8_t)(0x20 | (tb << 4));
                        /* the toggle bit of the FINAL confirmation is not checked by the client: not constrained */
                        if ((tb != t) && (got != SIZE)) { deviated = 1; } else { t ^= 1; if (got == SIZE) { done = 1; } }
                    }
                }
                if (!srv_silent) { abort_tx0 = env_tx_n; srv_send(r); }
            }
        }
        if ((BEH == 7) && (cb_n == 0)) { srv_silent = 1; }      /* the endless server finally goes silent: the time-out ends the transfer */
        if (srv_silent) {
            /* ---- time-out ---- */
            uint32_t n0 = env_tx_n;
            for (i = 0; i < TMO1 + 1; i++) { env_tick(&node); }
            CHECK(cb_n == 1 && cb_code == 0x05040000, "time-out reported once with 0504 0000h");
            CHECK(env_tx_n == n0 + 1 && env_tx[n0].Identifier == SRV_RX && env_tx[n0].Data[0] == 0x80 && env_tx[n0].Data[4] == 0x00 && env_tx[n0].Data[5] == 0x00 &&
                  env_tx[n0].Data[6] == 0x04 && env_tx[n0].Data[7] == 0x05, "abort frame 0504 0000h on the bus");
        } else if ((BEH == 1) && deviated) {
            CHECK(cb_n == 1 && cb_code == acode, "server abort reported once with the server's code");
            CHECK(env_tx_n == abort_tx0, "a server abort is not answered with another frame");
        } else if (lenient) {
            /* oversized final segment: ended exactly once; whether the surplus is cut off or reported is not constrained */
            CHECK(cb_n == 1, "transfer with an oversized final segment ends exactly once");
            if (cb_code == 0) { for (i = 0; i < SIZE; i++) { CHECK(ubuf[4 + i] == pay[i], "user buffer holds the server's bytes up to its size"); } }
        } else if (deviated) {
            CHECK(cb_n == 1 && cb_code != 0, "malformed answer ends the transfer once with an error");
        } else {
            CHECK(cb_n == 1 && cb_code == 0, "completion reported exactly once with code 0");
            CHECK(cb_idx == 0x2345 && cb_sub == 6, "completion names the object");
            if (DIRN == 0) { for (i = 0; i < SIZE; i++) { CHECK(ubuf[4 + i] == pay[i], "user buffer holds exactly the server's bytes"); } }
            else if (SIZE > 4) { CHECK(got == SIZE, "server received all bytes"); for (i = 0; i < SIZE; i++) { CHECK(srv_rx[i] == ubuf0[4 + i], "server received the user's bytes in order"); } }
        }
        for (i = 0; i < 4; i++) { CHECK(ubuf[i] == ubuf0[i] && ubuf[4 + SIZE + i] == ubuf0[4 + SIZE + i], "nothing written outside the user buffer"); }
        if (DIRN == 1) { for (i = 0; i < SIZE; i++) { CHECK(ubuf[4 + i] == ubuf0[4 + i], "download leaves the user buffer alone"); } }
#ifdef CBREQ
        CHECK(cb_req_done, "the callback ran");
        if (cb_req == CO_ERR_NONE) {
            /* accepted: then it is a real transfer - request on the bus, supervised by its time-out, completed exactly once */
            uint32_t n1 = env_tx_n, c1 = cb_n;
            CHECK(env_tx[n1 - 1].Identifier == SRV_RX && env_tx[n1 - 1].Data[0] == 0x40, "a request accepted inside the callback is sent");
            for (i = 0; i < TMO1 + 1; i++) { env_tick(&node); }
            CHECK(cb_n == c1 + 1 && cb_code == 0x05040000, "a request accepted inside the callback is supervised by its time-out and ends exactly once");
        } else {
            CHECK(cb_req == CO_ERR_SDO_BUSY, "a request made inside the completion callback is refused as busy (or fully served)");
        }
#endif
        CHECK(c->State == CO_CSDO_STATE_IDLE, "client idle after the transfer");
#ifdef CBTMR
        CHECK(app_tmr >= 0, "a timer can be created inside the completion callback");
        CHECK(free_actions() == OD_TMR_N - 1, "only the timer created by the callback is in use after the transfer");
        env_tick(&node); env_tick(&node);
        CHECK(app_fired == 1, "a timer created inside the completion callback survives the end of the transfer and fires when due");
#endif
        CHECK(free_actions() == OD_TMR_N, "no timer left behind by the finished transfer");
        COVER(cb_code != 0, "failed transfer");
#if FOLLOW
        /* ---- a later transfer is not disturbed ---- */
        {
            uint8_t b2[4];
            cb_n = 0; env_tx_n = 0;
            e = COCSdoRequestUpload(c, KEY, b2, 4, cb, TMO2);
            CHECK(e == CO_ERR_NONE && env_tx_n == 1, "second request accepted");
            for (i = 0; i < TMO2 - 1; i++) { env_tick(&node); }
            CHECK(cb_n == 0 && env_tx_n == 1, "second transfer still waiting inside its own time-out");
            for (i = 0; i < 8; i++) { r[i] = 0; }
            r[0] = 0x43; r[1] = 0x45; r[2] = 0x23; r[3] = 6; r[4] = pay[0]; r[5] = pay[1]; r[6] = pay[2]; r[7] = pay[3];
            srv_send(r);
            CHECK(cb_n == 1 && cb_code == 0 && b2[0] == pay[0] && b2[3] == pay[3], "second transfer completes normally");
            CHECK(free_actions() == OD_TMR_N, "timer pool back to its initial occupancy");
        }
#endif
    }
#else
    {
        uint32_t size = ND_U32(), idx = ND_U32();
        uint8_t  t = ND_U8() & 1;
        uint32_t rem, n;
        ASSUME(size <= 600 && size > 4 && idx < size);
        for (i = 0; i < 600; i++) { big[i] = (uint8_t)(i * 7u + 1u); }
        /* arbitrary mid-transfer context of a segmented download */
        c->State = CO_CSDO_STATE_BUSY; c->Tfer.Type = CO_CSDO_TRANSFER_DOWNLOAD_SEGMENT; c->Tfer.Idx = 0x2345; c->Tfer.Sub = 6;
        c->Tfer.Buf = big; c->Tfer.Size = size; c->Tfer.Buf_Idx = idx; c->Tfer.TBit = t; c->Tfer.Call = cb; c->Tfer.Tmt = TMO1; c->Tfer.Abort = 0;
        c->Tfer.Tmr = -1;
        env_tx_n = 0;
        for (i = 0; i < 8; i++) { r[i] = 0; }
        r[0] = (uint8_t)(0x20 | (t << 4));
        srv_send(r);
        rem = size - idx; n = (rem > 7) ? 7 : rem;
        CHECK(env_tx_n == 1 && cb_n == 0, "confirmation of a segment triggers the next segment");
        CHECK(7u - ((env_tx[0].Data[0] >> 1) & 7u) == n, "next segment carries min(7, Size - Buf_Idx) bytes");
        CHECK((env_tx[0].Data[0] & 1u) == ((rem <= 7) ? 1u : 0u), "last-segment flag exactly when the remaining bytes fit");
        CHECK(((env_tx[0].Data[0] >> 4) & 1u) == (uint8_t)(t ^ 1), "toggle bit alternates");
        CHECK(env_tx[0].Data[1] == big[idx], "bytes taken from the right offset of the user buffer");
        CHECK(c->Tfer.Buf_Idx == idx + n, "progress by the bytes sent");
        COVER(rem > 255 && (rem & 0xFF) < 8, "remaining length modulo 256 below 8");
    }
#endif
    CHECK(env_fatal == 0, "no fatal error");
    COVER(1, "end");
}
