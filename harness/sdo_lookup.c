/* C04 sdo_lookup: object selection of an initiate request with a FULLY
 * SYMBOLIC multiplexer (2^24) and symbolic access-flag bytes on every
 * application entry; COSdoCheck + COSdoGetObject on the template dictionary
 * (no type dispatch on this path).  Oracle: linear reference lookup. */
#define OD_HIGH
#include "sdo_inv.h"

void harness(void)
{
    CO_SDO   *s = &node.Sdo[0];
    CO_IF_FRM frm;
    CO_SDO   *hit;
    CO_ERR    err;
    uint16_t  idx;
    uint8_t   sub;
    uint8_t   mode;
    uint32_t  i;
    CO_OBJ   *exact = 0;
    uint8_t   idx_exists = 0;
    uint32_t  code;

    env_reset();
    od_defaults();
    node_boot();
    /* arbitrary access flags on the application objects (R/W bits, everything else kept) */
    for (i = 0; i + 1 < OD_LEN; i++) {
        if (CO_GET_IDX(od[i].Key) >= 0x2100) {
            od[i].Key = (od[i].Key & ~(uint32_t)(CO_OBJ_____RW)) | (ND_U8() & CO_OBJ_____RW);
        }
    }
    /* arbitrary idle server */
    sdo_arbitrary_state(s, 0, 0, 0);
    ASSUME(sdo_inv(s, 0, 0, 0));

    idx  = ND_U16();
    sub  = ND_U8();
    mode = (ND_U8() & 1) ? CO_SDO_RD : CO_SDO_WR;
    frm.Identifier = 0x600 + OD_NODEID;
    frm.DLC = 8;
    ND_BUF(frm.Data, 8);
    frm.Data[1] = (uint8_t)idx; frm.Data[2] = (uint8_t)(idx >> 8); frm.Data[3] = sub;

    hit = COSdoCheck(node.Sdo, &frm);
    CHECK(hit == s, "request identifier selects server 0");
    CHECK(frm.Identifier == 0x580 + OD_NODEID, "response identifier set");
    err = COSdoGetObject(s, mode);

    for (i = 0; i + 1 < OD_LEN; i++) {
        if (CO_GET_IDX(od[i].Key) == idx) {
            idx_exists = 1;
            if (CO_GET_SUB(od[i].Key) == sub) { exact = &od[i]; }
        }
    }
    code = (uint32_t)frm.Data[4] | ((uint32_t)frm.Data[5] << 8) | ((uint32_t)frm.Data[6] << 16) | ((uint32_t)frm.Data[7] << 24);
    if (err == CO_ERR_NONE) {
        CHECK(exact != 0 && s->Obj == exact, "accepted request addresses the entry with exactly this index and sub-index");
        CHECK((mode == CO_SDO_RD) ? (CO_IS_READ(exact->Key) != 0) : (CO_IS_WRITE(exact->Key) != 0), "accepted request has the required access right");
    } else {
        CHECK(s->Obj == 0, "refused request leaves no object selected");
        CHECK(frm.Data[0] == 0x80, "refused request is answered with an abort");
        CHECK(frm.Data[1] == (uint8_t)idx && frm.Data[2] == (uint8_t)(idx >> 8) && frm.Data[3] == sub, "abort carries the requested multiplexer");
        if (exact != 0) {
            if (mode == CO_SDO_RD) { CHECK(CO_IS_READ(exact->Key) == 0 && code == 0x06010001, "existing object refused only for a missing read right, with 0601 0001h"); }
            else                   { CHECK(CO_IS_WRITE(exact->Key) == 0 && code == 0x06010002, "existing object refused only for a missing write right, with 0601 0002h"); }
        } else if (idx_exists) {
            CHECK(code == 0x06090011, "unknown sub-index of an existing index refused with 0609 0011h");
        } else {
            CHECK(code == 0x06020000, "unknown index refused with 0602 0000h");
        }
    }
    COVER(err == CO_ERR_NONE && idx >= 0x2100, "application object accepted");
    COVER(err != CO_ERR_NONE && exact != 0, "access right missing");
    COVER(err != CO_ERR_NONE && exact == 0 && idx_exists, "unknown sub-index");
    COVER(err != CO_ERR_NONE && !idx_exists, "unknown index");
    COVER(idx == 0 && sub == 0, "multiplexer 0000h:00h");
    COVER(err == CO_ERR_NONE && idx >= 0xA000, "object in the upper half of the index range accepted");
    COVER(1, "end");
}
