/* C04 sdo_uabort: the application-supplied abort code (COObjTypeUserSDOAbort)
 * belongs to the request that was refused and to nothing else: a later
 * refusal of another request - on the same or on the other SDO server -
 * reports its own CiA 301 code.  Two servers, two application object types:
 *   2200h refuses every write and supplies a symbolic abort code
 *   2201h refuses every write as "range exceeded" without supplying a code
 * SRVSEQ: which server each of the requests goes to (digit string).          */
#define OD_UABORT
#include "od.h"
#ifndef SRVSEQ
#define SRVSEQ "11"
#endif
static uint32_t ucode;
static uint32_t USize (struct CO_OBJ_T *obj, struct CO_NODE_T *node, uint32_t width) { (void)obj; (void)node; (void)width; return 4; }
static CO_ERR   URead (struct CO_OBJ_T *obj, struct CO_NODE_T *node, void *buf, uint32_t size) { (void)obj; (void)node; (void)size; *(uint32_t *)buf = 0; return CO_ERR_NONE; }
static CO_ERR   UWriteA(struct CO_OBJ_T *obj, struct CO_NODE_T *node, void *buf, uint32_t size)
{ (void)buf; (void)size; COObjTypeUserSDOAbort(obj, node, ucode); return CO_ERR_TYPE_WR; }
static CO_ERR   UWriteR(struct CO_OBJ_T *obj, struct CO_NODE_T *node, void *buf, uint32_t size)
{ (void)obj; (void)node; (void)buf; (void)size; return CO_ERR_OBJ_RANGE; }
const CO_OBJ_TYPE UTypeA = { USize, 0, URead, UWriteA, 0 };
const CO_OBJ_TYPE UTypeR = { USize, 0, URead, UWriteR, 0 };

static uint32_t wr(uint8_t srv, uint16_t idx, uint32_t v)
{
    uint8_t d[8];
    d[0] = 0x23; d[1] = (uint8_t)idx; d[2] = (uint8_t)(idx >> 8); d[3] = 0;
    d[4] = (uint8_t)v; d[5] = (uint8_t)(v >> 8); d[6] = (uint8_t)(v >> 16); d[7] = (uint8_t)(v >> 24);
    env_tx_n = 0;
    env_deliver(&node, srv ? 0x640u : (0x600u + OD_NODEID), 8, d);   /* 1201h is not node-id relative in the template */
    CHECK(env_tx_n == 1 && env_tx[0].Identifier == (srv ? 0x5C0u : (0x580u + OD_NODEID)), "answered once on the server's identifier");
    CHECK(env_tx[0].Data[0] == 0x80 && env_tx[0].Data[1] == (uint8_t)idx && env_tx[0].Data[2] == (uint8_t)(idx >> 8), "refused, naming the object");
    DBG("srv %u idx %04x -> tx=%u id=%x %02x code=%02x%02x%02x%02x\n", srv, idx, (unsigned)env_tx_n, (unsigned)env_tx[0].Identifier, env_tx[0].Data[0], env_tx[0].Data[7], env_tx[0].Data[6], env_tx[0].Data[5], env_tx[0].Data[4]);
    return (uint32_t)env_tx[0].Data[4] | ((uint32_t)env_tx[0].Data[5] << 8) | ((uint32_t)env_tx[0].Data[6] << 16) | ((uint32_t)env_tx[0].Data[7] << 24);
}
void harness(void)
{
    static const char sq[] = SRVSEQ;
    uint32_t s;
    env_reset();
    od_defaults();
    ucode = ND_U32();
    ASSUME(ucode != 0);
    node_boot();
    CHECK(node.Error == CO_ERR_NONE, "configuration accepted");
    for (s = 0; s + 1 < sizeof(sq); s++) {
        uint8_t srv = (uint8_t)(sq[s] - '0');
        uint32_t v = ND_U32();
        CHECK(wr(srv, 0x2200, v) == ucode, "refusal by the application type reports the application-supplied code");
        CHECK(wr(srv, 0x2201, v) == 0x06090030u, "a later range refusal reports 0609 0030h, not a code left over from an earlier request");
        CHECK(wr(srv, 0x2107, v) == 0x06010002u, "write to a read-only object reports 0601 0002h");
        CHECK(wr((uint8_t)(1 - srv), 0x2201, v) == 0x06090030u, "the other server is not affected by the code supplied for this one");
    }
    CHECK(env_fatal == 0, "no fatal error");
    COVER(1, "end");
}
