/* C12 tpdo_bmc / tpdo_frame: one event-driven TPDO (type 254/255) or
 * synchronous TPDO on a whole node; operation kinds concrete (OPSEQ), written
 * times per step concrete (VALS, see hbp_bmc.c for why), mapped object values
 * and triggers' data symbolic.  Every emission (tick, identifier, dlc, data)
 * is compared with a reference model of trigger / inhibit / event rules
 * ("inhibit first" on ties).
 *   MAP/MAPN mapping (link values), INH0 inhibit time (100 us units, 10 = 1 tick),
 *   EVT0 event time (ms = ticks), TTYPE transmission type
 *   op 'T' tick   'G' application trigger   'O' write the first mapped async object (value VALS[s])
 *      'Q' write it with its current value (no change)   'N' NMT start   'S' stop   'P' pre-operational
 *      'E' SDO write event time := VALS[s]   'I' SDO write inhibit time := VALS[s]*10
 *      'V' invalidate COB-ID (SDO)   'U' validate COB-ID (SDO)   'Y' SYNC frame
 *      'K' SDO write transmission type := TYPE2 (while invalid)   'M' remap to MAP2 (while invalid)
 *      'o' write the first object of MAP2 (changed value)                               */
#define OD_SYNC
#define OD_TPDO 1
#include "od.h"
#ifndef MAP
#define MAP {0x21030008}
#define MAPN 1
#endif
#ifndef OPSEQ
#define OPSEQ "NGT"
#endif
#ifndef INH0
#define INH0 0
#endif
#ifndef EVT0
#define EVT0 0
#endif
#ifndef TTYPE
#define TTYPE 254
#endif
#ifndef VALS
#define VALS {0}
#endif

static const uint32_t map0[] = MAP;
#ifndef MAP2
#define MAP2 {0x21050020}
#define MAP2N 1
#endif
static const uint32_t map2[] = MAP2;
static const uint32_t *map = map0;        /* mapping in effect (model) */
static uint32_t mapn = MAPN;
static const uint32_t vals[] = VALS;
static uint32_t now;
/* model */
static uint8_t  m_op, m_valid, m_pend, m_inh_on, m_ev_on;
static uint32_t m_inh_end, m_ev_due, m_I, m_E;       /* ticks */
static uint32_t m_I_cfg, m_E_cfg;                     /* as stored in the dictionary */
static uint32_t m_tx;                                 /* expected emissions in this step */
static uint8_t  m_sync_n, m_sync_c;
static uint8_t  m_type = TTYPE;                       /* transmission type as stored in 1800h:2 */
#ifndef TYPE2
#define TYPE2 255
#endif

static uint32_t obj_val(uint16_t idx)
{
    return (idx == 0x2100) ? app.b : (idx == 0x2101) ? app.w : (idx == 0x2102) ? app.l :
           (idx == 0x2103) ? app.ab : (idx == 0x2104) ? app.aw : (idx == 0x2105) ? app.al : 0;
}
static void check_frame(const CO_IF_FRM *f)
{
    uint32_t k, pos = 0;
    CHECK(f->Identifier == 0x180 + OD_NODEID, "TPDO identifier");
    for (k = 0; k < mapn; k++) {
        uint32_t n = (map[k] & 0xFF) >> 3, j;
        uint32_t v = obj_val((uint16_t)(map[k] >> 16));
        for (j = 0; j < n; j++) { CHECK(f->Data[(pos + j) & 7] == (uint8_t)(v >> (8 * j)), "TPDO carries the mapped values in mapping order, little-endian"); }
        pos += n;
    }
    CHECK(f->DLC == pos, "TPDO DLC equals the mapped byte count");
}
static void m_transmit(void)
{
    m_tx++;
    m_pend = 0;
    if (m_I > 0) { m_inh_on = 1; m_inh_end = now + m_I; }
    m_ev_on = 0;
    if (m_E > 0) { m_ev_on = 1; m_ev_due = now + m_E; }
}
static void m_trigger(void)
{
    if (!m_op || !m_valid) { return; }
    if (m_type <= 240) { return; }                    /* synchronous TPDOs are sent on SYNC only */
    if (m_inh_on) { m_pend = 1; return; }
    m_transmit();
}
static void m_activate(void)                          /* entering OPERATIONAL / re-validating */
{
    m_I = m_I_cfg; m_E = (m_type >= 254) ? m_E_cfg : 0;
    m_sync_n = (m_type <= 240) ? m_type : 0;
    m_inh_on = 0; m_pend = 0; m_ev_on = 0;
    if (m_valid && (m_E > 0)) { m_ev_on = 1; m_ev_due = now + m_E; }
    m_sync_c = 0;
}
static void sdo_wr(uint16_t idx, uint8_t sub, uint8_t w, uint32_t v)
{
    uint8_t d[8];
    d[0] = (uint8_t)(0x23 | ((4 - w) << 2)); d[1] = (uint8_t)idx; d[2] = (uint8_t)(idx >> 8); d[3] = sub;
    d[4] = (uint8_t)v; d[5] = (uint8_t)(v >> 8); d[6] = (uint8_t)(v >> 16); d[7] = (uint8_t)(v >> 24);
    env_deliver(&node, 0x600 + OD_NODEID, 8, d);
}
static void nmt(uint8_t cs) { uint8_t d[8] = { 0, 0, 0, 0, 0, 0, 0, 0 }; d[0] = cs; d[1] = OD_NODEID; env_deliver(&node, 0x000, 2, d); }

void harness(void)
{
    static const char ops[] = OPSEQ;
    uint32_t s, i, k;

    env_reset();
    od_defaults();
    V1800_1(0) = 0x40000180; V1800_2(0) = TTYPE; V1800_3(0) = INH0; V1800_5(0) = EVT0;
    V1A00_0(0) = MAPN;
    for (k = 0; k < MAPN; k++) { V1A00(0, k) = map[k]; }
#ifdef CONCV
    /* object writes combined with running timers: values concrete, otherwise the changed / unchanged decision
     * (and with it every timer list behind it) is symbolic */
    app.b = 0x11; app.w = 0x2233; app.l = 0x44556677; app.ab = 0x88; app.aw = 0x99AA; app.al = 0xBBCCDDEE;
#else
    app.b = ND_U8(); app.w = ND_U16(); app.l = ND_U32(); app.ab = ND_U8(); app.aw = ND_U16(); app.al = ND_U32();
#endif
    node_boot();
    CHECK(node.Error == CO_ERR_NONE, "configuration accepted");
    m_valid = 1; m_I_cfg = INH0 / 10; m_E_cfg = EVT0; m_sync_n = (TTYPE <= 240) ? TTYPE : 0;

    for (s = 0; s + 1 < sizeof(ops); s++) {
        char o = ops[s];
        uint32_t sdo_rsp = 0;
        env_tx_n = 0; m_tx = 0;
        if (o == 'T') {
            now++;
            env_tick(&node);
            /* inhibit first, then event */
            if (m_inh_on && (m_inh_end == now)) {
                m_inh_on = 0;
                if (m_pend) { if (m_op && m_valid) { m_transmit(); } else { m_pend = 0; } }
            }
            if (m_ev_on && (m_ev_due == now)) {
                m_ev_on = 0;
                if (m_op && m_valid) { if (m_inh_on) { m_pend = 1; } else { m_transmit(); } }
            }
        } else if (o == 'G') { COTPdoTrigPdo(node.TPdo, 0); m_trigger();
        } else if (o == 'M') {
            /* remap while invalid: count := 0, entry 1 := MAP2[0] .., count := MAP2N (write rules themselves are C14's) */
            CHECK(!m_valid, "H:mapping is rewritten only while the PDO is invalid");
            sdo_wr(0x1A00, 0, 1, 0);
            for (k = 0; k < MAP2N; k++) { env_tx_n = 0; sdo_wr(0x1A00, (uint8_t)(1 + k), 4, map2[k]); CHECK(env_tx_n == 1 && env_tx[0].Data[0] == 0x60, "mapping entry accepted"); }
            env_tx_n = 0; sdo_wr(0x1A00, 0, 1, MAP2N); sdo_rsp = 1;
            CHECK(env_tx_n == 1 && env_tx[0].Data[0] == 0x60, "mapping count accepted");
            map = map2; mapn = MAP2N;
        } else if ((o == 'O') || (o == 'Q') || (o == 'o') || (o == 'H')) {
            /* 'O'/'Q': first object of the ORIGINAL mapping, 'o': first object of the second mapping */
            uint16_t idx = (uint16_t)(((o == 'o') ? map2[0] : map0[0]) >> 16);
            uint8_t  mapped = 0;
            uint32_t old = obj_val(idx);
            uint32_t nv  = (o == 'Q') ? old : (o == 'H') ? (old ^ 0x00010000u) : (old ^ (1u + (vals[s] & 0x7Fu)));   /* 'H': only the upper half of a 32-bit object changes */
            if      (idx == 0x2103) { (void)CODictWrByte(&node.Dict, CO_DEV(idx, 0), (uint8_t)nv); }
            else if (idx == 0x2104) { (void)CODictWrWord(&node.Dict, CO_DEV(idx, 0), (uint16_t)nv); }
            else if (idx == 0x2100) { (void)CODictWrByte(&node.Dict, CO_DEV(idx, 0), (uint8_t)nv); }
            else if (idx == 0x2101) { (void)CODictWrWord(&node.Dict, CO_DEV(idx, 0), (uint16_t)nv); }
            else                    { (void)CODictWrLong(&node.Dict, CO_DEV(idx, 0), nv); }
            for (k = 0; k < mapn; k++) { if ((uint16_t)(map[k] >> 16) == idx) { mapped = 1; } }
            if ((o != 'Q') && mapped && (idx >= 0x2103)) { m_trigger(); }      /* only asynchronous (2103h..2105h) mapped objects trigger */
        } else if (o == 'N') { uint8_t was = m_op; nmt(1); m_op = 1; if (!was) { m_activate(); }
        } else if (o == 'S') { nmt(2);   m_op = 0;
        } else if (o == 'P') { nmt(128); m_op = 0;
        } else if (o == 'E') {
            sdo_wr(0x1800, 5, 2, vals[s]); sdo_rsp = 1;
            m_E_cfg = vals[s];
            if (m_op && m_valid) {
                /* event timer restarted with the new time, a running inhibit time is stopped and a
                 * transmission it deferred is sent at once (see DESIGN.md, fix of COTPdoEventWrite) */
                m_E = (m_type >= 254) ? vals[s] : 0; m_ev_on = 0; m_inh_on = 0;
                if (m_E > 0) { m_ev_on = 1; m_ev_due = now + m_E; }
                if (m_pend) { m_transmit(); }
            }
        } else if (o == 'I') { sdo_wr(0x1800, 3, 2, vals[s] * 10u); sdo_rsp = 1; m_I_cfg = vals[s];
        } else if (o == 'V') { sdo_wr(0x1800, 1, 4, 0xC0000180u + OD_NODEID); sdo_rsp = 1; m_valid = 0; m_inh_on = 0; m_ev_on = 0; m_pend = 0;
        } else if (o == 'U') { sdo_wr(0x1800, 1, 4, 0x40000180u + OD_NODEID); sdo_rsp = 1; if (!m_valid) { m_valid = 1; if (m_op) { m_activate(); } }
        } else if (o == 'K') {
            /* transmission type := TYPE2, only used while the COB-ID is invalid (the write rule itself is C14's) */
            sdo_wr(0x1800, 2, 1, TYPE2); sdo_rsp = 1;
            CHECK(!m_valid, "H:type is rewritten only while the PDO is invalid");
            CHECK(env_tx_n == 1 && env_tx[0].Data[0] == 0x60, "transmission type accepted while the PDO is invalid");
            m_type = TYPE2;
        } else if (o == 'Y') {
            uint8_t d[8] = { 0, 0, 0, 0, 0, 0, 0, 0 };
            env_deliver(&node, 0x80, 0, d);
            if (m_op && m_valid && (m_sync_n > 0)) { m_sync_c++; if (m_sync_c == m_sync_n) { m_sync_c = 0; m_tx++; } }
        }
        /* ---- emissions of this step ---- */
        {
            uint32_t n = 0;
            for (i = 0; i < ENV_TX_MAX; i++) {
                if ((i < env_tx_n) && (env_tx[i].Identifier == 0x180 + OD_NODEID)) { n++; check_frame(&env_tx[i]); }
            }
            CHECK(n == m_tx, "TPDO transmitted exactly when the trigger / inhibit / event / SYNC rules say so");
            CHECK(env_tx_n == n + sdo_rsp, "no other frames");
        }
        CHECK(env_fatal == 0, "no fatal error");
    }
    COVER(m_pend, "transmission deferred by the inhibit time at the end");
    COVER(1, "end");
}
