/* C02 / C03 sdo_seg_step: induction over the segments of a segmented transfer
 * on a LARGE domain (OD_DOM_SIZE up to 4000 bytes): from an arbitrary
 * mid-transfer state (bytes done so far m, announced size, toggle bit all
 * symbolic) ONE conforming segment moves exactly its bytes to / from offset m,
 * changes nothing else (checked at a symbolic byte position), answers with the
 * CiA 301 response and leaves the state of "m + n bytes done".  Together with
 * the initiate step (sdo_step / sdo_xfer) this composes to transfers of every
 * size up to the domain size without running hundreds of segments.
 *   DIRN 1 download segment, 0 upload segment request                         */
#include "sdo_inv.h"
#ifndef DIRN
#define DIRN 1
#endif
#define DS OD_DOM_SIZE
#ifndef TB
#define TB 0
#endif
#ifndef NF
#define NF 0
#endif
#ifndef CB
#define CB 0
#endif

/* the domain storage is an object of its own (a symbolic offset into the `app` struct would turn every
 * access to that struct into a byte-level update, DESIGN.md §3 rule 4) */
static uint8_t big[DS + 4];
static uint8_t pat(uint32_t i, uint8_t salt) { return (uint8_t)((i * 7u + (i >> 8) * 13u + 1u) ^ salt); }

void harness(void)
{
    CO_SDO  *s = &node.Sdo[0];
    CO_OBJ  *dom;
    uint8_t  salt = 0x5A;                               /* concrete pattern: a symbolic salt makes every byte of the array symbolic */
    uint32_t i, m, S, dsz, p;
    uint8_t  t, d[8];

    env_reset();
    od_defaults();
    for (i = 0; i < DS + 4; i++) { big[i] = pat(i, salt); }
    od_dom.Start = big;
    dsz = ND_RANGE(1, DS);
    od_dom.Size = dsz;
    node_boot();
    dom = od_find(0x2110, 0);

    /* arbitrary mid-transfer state of a segmented transfer on the domain */
    sdo_arbitrary_state(s, 0, 1, dom);
    m = ND_RANGE(0, DS);
    t = TB;                                             /* command byte concrete per instance (DESIGN.md §3 rule 1) */
    s->Buf.Cur = s->Buf.Start; s->Buf.Num = 0;         /* flushed after every segment (invariant) */
    s->Seg.Num = m; s->Seg.TBit = t;
    od_dom.Offset = m;                                  /* the object cursor follows the transfer   */
    p = ND_RANGE(0, DS + 3);
    ND_BUF(d, 8);

#if DIRN == 1
    {
        uint8_t  nf = NF, c = CB;
        uint32_t n = 7u - nf;
        S = ND_U32();
        ASSUME(c || (nf == 0));                         /* a conforming client fills every segment but the last */
        ASSUME(m + n <= dsz);
        /* Seg.Size of an open download is the announced size or, without announcement, the object size */
        ASSUME((S >= 1) && (S <= dsz) && (c ? (m + n <= S) : (m + n < S)));
        s->Seg.Size = S;
        ASSUME(sdo_inv(s, 0, dom, dom));
        d[0] = (uint8_t)((t << 4) | (nf << 1) | c);
        env_deliver(&node, 0x600 + OD_NODEID, 8, d);
        DBG("m=%u n=%u S=%u dsz=%u c=%u t=%u -> tx=%u %02x %02x%02x%02x%02x err=%d off=%u\n", (unsigned)m, (unsigned)n, (unsigned)S, (unsigned)dsz, c, t, (unsigned)env_tx_n, env_tx[0].Data[0],
            env_tx[0].Data[7], env_tx[0].Data[6], env_tx[0].Data[5], env_tx[0].Data[4], (int)node.Error, (unsigned)od_dom.Offset);
        CHECK(env_tx_n == 1 && env_tx[0].Identifier == 0x580 + OD_NODEID && env_tx[0].DLC == 8, "segment answered once");
        CHECK(env_tx[0].Data[0] == (uint8_t)(0x20 | (t << 4)), "download segment confirmed with the toggle bit of the request");
        for (i = 1; i < 8; i++) { CHECK(env_tx[0].Data[i] == 0, "reserved bytes of the confirmation are zero"); }
        if ((p >= m) && (p < m + n)) { CHECK(big[p] == d[1 + (p - m)], "the segment's bytes land at the offset reached so far"); }
        else                         { CHECK(big[p] == pat(p, salt), "every other byte of the object and behind it is untouched"); }
        if (c) {
            CHECK(s->Obj == 0 && s->Blk.State == BLK_IDLE, "transfer closed by the last segment");
        } else {
            CHECK(s->Obj == dom && s->Seg.Num == m + n && s->Seg.TBit == (uint8_t)(t ^ 1) && s->Seg.Size == S, "progress by exactly the bytes of the segment");
            CHECK(od_dom.Offset == m + n, "object cursor advanced by the bytes written");
            CHECK(s->Buf.Cur == s->Buf.Start && s->Buf.Num == 0, "buffer flushed");
        }
        COVER(m > DS / 2 && !c, "deep inside a long transfer");
        COVER(m + n == dsz && c, "last byte of the domain written");
    }
#else
    {
        uint32_t w; uint8_t c;
        S = dsz;
        ASSUME(m < S);
        s->Seg.Size = S;
        ASSUME(sdo_inv(s, 0, dom, dom));
        w = ((S - m) > 7) ? 7 : (S - m);
        c = ((S - m) <= 7) ? 1 : 0;
        d[0] = (uint8_t)(0x60 | (t << 4));
        env_deliver(&node, 0x600 + OD_NODEID, 8, d);
        CHECK(env_tx_n == 1 && env_tx[0].Identifier == 0x580 + OD_NODEID && env_tx[0].DLC == 8, "segment request answered once");
        CHECK(env_tx[0].Data[0] == (uint8_t)((t << 4) | ((7 - w) << 1) | c), "upload segment: toggle bit of the request, number of unused bytes, last-segment flag exactly when the object ends");
        for (i = 0; i < 7; i++) { if (i < w) { CHECK(env_tx[0].Data[1 + i] == pat(m + i, salt), "segment carries the object's bytes from the offset reached so far"); } }
        CHECK(big[p] == pat(p, salt), "object unchanged by the upload");
        if (c) {
            CHECK(s->Obj == 0, "transfer closed by the last segment");
        } else {
            CHECK(s->Obj == dom && s->Seg.Num == m + w && s->Seg.TBit == (uint8_t)(t ^ 1), "progress by exactly the bytes sent");
            CHECK(od_dom.Offset == m + w, "object cursor advanced by the bytes read");
        }
        COVER(m > DS / 2 && !c, "deep inside a long transfer");
        COVER(c && w < 7, "short last segment");
    }
#endif
    CHECK(env_fatal == 0 && node.Error == CO_ERR_NONE, "no error");
    COVER(1, "end");
}
